"""Exploration engines and the check runner.

E1  stateless choice-point explorer (CHESS / JPF-Verify style): a harness body asks ``ctx.choose(name, options)``
    for every decision; the engine enumerates choice vectors depth-first by prefix replay, either as a full product
    or bounded by the number of *deviations* (non-zero choices) from the default specification.
E2  explicit-state breadth-first search over API histories: a state is the event history reaching it, rebuilt by
    replay on fresh objects; states are merged through a canonical hash supplied by the harness.
Static case lists (a full product written as a generator) run through the same worker pool.

Every execution runs the real dliswriter imported from /repo/src.  The runner merges shard results in canonical
order, confirms each violation by replaying it in a fresh interpreter, matches it against known_findings.json,
writes /verif/evidence/<id>.json and replay files, and prints the VIOLATION / KNOWN-FINDING lines.
"""
from __future__ import annotations

import hashlib
import importlib
import json
import multiprocessing as mp
import os
import random
import shutil
import subprocess
import sys
import tempfile
import time
import traceback
from collections import Counter
from typing import Any, Callable, Iterable, Iterator, Optional

VERIF = os.path.dirname(os.path.dirname(os.path.abspath(__file__)))
REPO_SRC = os.environ.get('VERIF_REPO_SRC', '/repo/src')   # override only for testing seeded changes in scratch worktrees
GUARD = 'WELL_ID_DLISWRITER_VERIF'
PY = '/venv/bin/python'


# ---------------------------------------------------------------------------------------------------------------------
# environment: import the working tree, own the process-global state
# ---------------------------------------------------------------------------------------------------------------------
_ENV_READY = False


def env_setup(silence_stderr: bool = True) -> None:
    """Import dliswriter from /repo/src (never from site-packages) and silence the progress bar."""
    global _ENV_READY
    if _ENV_READY:
        return
    os.environ[GUARD] = '1'
    os.environ['PROGRESSBAR_DISABLE_FASTPATH'] = '1'    # count checked on every record, not at time-driven redraws
    os.environ.setdefault('TZ', 'UTC')
    time.tzset()
    sys.dont_write_bytecode = True
    if REPO_SRC not in sys.path:
        sys.path.insert(0, REPO_SRC)
    if silence_stderr and os.environ.get('VERIF_KEEP_STDERR') != '1':
        devnull = os.open(os.devnull, os.O_WRONLY)
        os.dup2(devnull, 2)
    import logging
    logging.disable(logging.CRITICAL)  # harnesses that inspect log records re-enable explicitly
    import dliswriter
    p = os.path.realpath(dliswriter.__file__)
    if not p.startswith(os.path.realpath(REPO_SRC) + os.sep):
        raise RuntimeError(f"dliswriter imported from {p}, not from {REPO_SRC}")
    _ENV_READY = True


def reset_globals() -> None:
    """Return every piece of process-global dliswriter state to its fresh-interpreter value."""
    from dliswriter.utils.internal import struct_writer
    from dliswriter.logical_record.core.logical_record import segment_attributes
    from dliswriter.logical_record.core.logical_record.logical_record import LRMeta, LogicalRecord
    from dliswriter.configuration import global_config
    for mod in (struct_writer, segment_attributes):
        for f in list(vars(mod).values()):
            if callable(f) and hasattr(f, 'cache_clear'):
                f.cache_clear()
    global_config.high_compat_mode = False

    def walk(c: type) -> None:
        if isinstance(c, LRMeta):
            c._lr_type_struct = b''
        for s in c.__subclasses__():
            walk(s)
    walk(LogicalRecord)


_SCRATCH: Optional[str] = None


def scratch_dir() -> str:
    """Per-process scratch directory on tmpfs; removed at exit."""
    global _SCRATCH
    if _SCRATCH is None or not os.path.isdir(_SCRATCH):
        base = '/dev/shm' if os.path.isdir('/dev/shm') else tempfile.gettempdir()
        _SCRATCH = tempfile.mkdtemp(prefix='verif-mc-', dir=base)
        import atexit
        atexit.register(shutil.rmtree, _SCRATCH, True)
    return _SCRATCH


def sha(b: bytes) -> str:
    return hashlib.sha256(b).hexdigest()[:16]


# ---------------------------------------------------------------------------------------------------------------------
# outcome of one execution
# ---------------------------------------------------------------------------------------------------------------------
class Outcome:
    """Result of one execution of a case on the implementation."""

    __slots__ = ('cls', 'violations', 'nontrivial', 'digest', 'extra')

    def __init__(self, cls: str, violations: Optional[list] = None, nontrivial: bool = True, digest: str = '',
                 extra: Optional[dict] = None):
        self.cls = cls                       # outcome class for the vacuity histogram
        self.violations = violations or []   # list of (signature, detail)
        self.nontrivial = nontrivial
        self.digest = digest                 # digest of the observation, for the determinism replay
        self.extra = extra or {}

    def to_json(self) -> dict:
        return {'cls': self.cls, 'violations': self.violations, 'nontrivial': self.nontrivial, 'digest': self.digest}


# ---------------------------------------------------------------------------------------------------------------------
# E1: choice-point explorer
# ---------------------------------------------------------------------------------------------------------------------
class ReplayDivergence(Exception):
    pass


class Ctx:
    """Choice context handed to a harness body."""

    def __init__(self, prefix: list[int]):
        self.prefix = prefix
        self.choices: list[int] = []
        self.arity: list[int] = []
        self.names: list[str] = []
        self.free: list[bool] = []

    def choose(self, name: str, options: list, free: bool = False) -> Any:
        """Pick one of ``options``; index 0 is the default. ``free`` choices do not count as deviations."""
        i = len(self.choices)
        n = len(options)
        if n == 0:
            raise ValueError(f"choice point {name} without options")
        c = self.prefix[i] if i < len(self.prefix) else 0
        if c >= n:
            raise ReplayDivergence(f"choice {i} ({name}) = {c} out of range {n}")
        self.choices.append(c)
        self.arity.append(n)
        self.names.append(name)
        self.free.append(free)
        return options[c]


def explore_choices(body: Callable[[Ctx], Outcome], bound: Optional[int],
                    on_run: Callable[[list[int], list[str], Outcome], None],
                    root_prefix: Optional[list[int]] = None) -> tuple[int, int]:
    """Enumerate every choice vector of ``body`` (deviation-bounded when bound is not None).

    Returns (nodes, edges) of the explored choice tree.  ``root_prefix`` pins the leading choices (sharding)."""
    nodes = 1
    edges = 0
    root = list(root_prefix or [])
    stack: list[list[int]] = [root]
    while stack:
        prefix = stack.pop()
        ctx = Ctx(prefix)
        reset_globals()
        out = body(ctx)
        if len(ctx.choices) < len(prefix):
            raise ReplayDivergence(f"body consumed {len(ctx.choices)} choices, prefix has {len(prefix)}")
        on_run(ctx.choices, ctx.names, out)
        nodes += len(ctx.choices) - len(prefix)
        edges += len(ctx.choices) - len(prefix)
        # children: alternatives at every choice point after the prefix (pinned root choices are never varied)
        dev_before = sum(1 for j in range(len(prefix)) if ctx.choices[j] != 0 and not ctx.free[j]
                         and j >= len(root))
        children = []
        for i in range(len(prefix), len(ctx.choices)):
            cost = dev_before + sum(1 for j in range(len(prefix), i) if ctx.choices[j] != 0 and not ctx.free[j])
            for alt in range(1, ctx.arity[i]):
                c = cost + (0 if ctx.free[i] else 1)
                if bound is not None and c > bound:
                    continue
                children.append(ctx.choices[:i] + [alt])
                nodes += 1
                edges += 1
        stack.extend(reversed(children))
    return nodes, edges


# ---------------------------------------------------------------------------------------------------------------------
# worker side
# ---------------------------------------------------------------------------------------------------------------------
def _load(prop: str):
    return importlib.import_module(f"mc.props.{prop.lower()}")


def _worker_init(prop: str, tier: str) -> None:
    sys.path.insert(0, VERIF)
    env_setup()
    mod = _load(prop)
    if hasattr(mod, 'worker_init'):
        mod.worker_init(tier)


MAX_VIOL_PER_SHARD = 40


def _run_shard(args: tuple) -> dict:
    prop, tier, shard = args
    mod = _load(prop)
    res = {'shard': shard, 'executions': 0, 'nodes': 0, 'edges': 0, 'outcomes': Counter(), 'nontrivial': 0,
           'samples': [], 'violations': [], 'viol_count': Counter(), 'error': None, 'digests': [], 'keys': []}
    t0 = time.time()

    def record(case: Any, out: Outcome) -> None:
        res['executions'] += 1
        res['outcomes'][out.cls] += 1
        if out.nontrivial:
            res['nontrivial'] += 1
        if len(res['samples']) < 2:
            res['samples'].append(case)
        for sig, detail in out.violations:
            res['viol_count'][sig] += 1
            if res['viol_count'][sig] <= 6 and len(res['violations']) < MAX_VIOL_PER_SHARD:
                res['violations'].append({'sig': sig, 'detail': detail, 'case': case})
        if out.digest and len(res['digests']) < 4:
            res['digests'].append({'case': case, 'digest': out.digest, 'cls': out.cls})

    try:
        if hasattr(mod, 'body'):
            bound = mod.bound(tier, shard) if hasattr(mod, 'bound') else None

            def on_run(choices, names, out):
                record({'shard': shard, 'choices': list(choices)}, out)
            n, e = explore_choices(lambda ctx: mod.body(ctx, shard), bound, on_run)
            res['nodes'] += n
            res['edges'] += e
        else:
            for case in mod.cases(shard, tier):
                reset_globals()
                out = mod.run_case(case)
                record(case, out)
                res['nodes'] += out.extra.get('nodes', 1)
                res['edges'] += out.extra.get('edges', 1)
    except Exception:
        res['error'] = traceback.format_exc()
    res['wall'] = time.time() - t0
    res['outcomes'] = dict(res['outcomes'])
    res['viol_count'] = dict(res['viol_count'])
    return res


def replay_case(prop: str, case: Any) -> Outcome:
    """Re-execute exactly one case (used by --replay and by the determinism confirmation)."""
    mod = _load(prop)
    reset_globals()
    if hasattr(mod, 'body') and isinstance(case, dict) and 'choices' in case:
        ctx = Ctx(list(case['choices']))
        out = mod.body(ctx, case['shard'])
        if ctx.choices != list(case['choices'])[:len(ctx.choices)] or len(ctx.choices) < len(case['choices']):
            raise ReplayDivergence(f"replay consumed {ctx.choices}, recorded {case['choices']}")
        return out
    return mod.run_case(case)


# ---------------------------------------------------------------------------------------------------------------------
# E2: layer-synchronous BFS over histories (driven from the parent; expansion happens in workers)
# ---------------------------------------------------------------------------------------------------------------------
def _expand_states(args: tuple) -> dict:
    prop, tier, histories = args
    mod = _load(prop)
    out = {'succ': [], 'executions': 0, 'error': None}
    try:
        for hist in histories:
            for ev in mod.enabled_events(hist, tier):
                reset_globals()
                nh = hist + [ev]
                key, oc = mod.step(nh, tier)       # replays nh on fresh objects, checks the invariant
                out['executions'] += 1
                out['succ'].append((key, nh, oc.to_json()))
    except Exception:
        out['error'] = traceback.format_exc()
    return out


# ---------------------------------------------------------------------------------------------------------------------
# known findings
# ---------------------------------------------------------------------------------------------------------------------
def load_known(prop: str) -> dict[str, dict]:
    p = os.path.join(VERIF, 'known_findings.json')
    if not os.path.exists(p):
        return {}
    with open(p) as f:
        data = json.load(f)
    return {e['signature']: e for e in data.get('findings', [])
            if e.get('property') == prop and e.get('status') == 'known'}


# ---------------------------------------------------------------------------------------------------------------------
# runner
# ---------------------------------------------------------------------------------------------------------------------
def _fresh_replay(prop: str, case: Any, timeout: int = 300) -> Optional[dict]:
    """Run one case in a fresh interpreter; returns its outcome JSON (None if the subprocess failed)."""
    env = dict(os.environ)
    env.update({'PYTHONDONTWRITEBYTECODE': '1', 'PYTHONHASHSEED': '0', GUARD: '1'})
    p = subprocess.run([PY, '-B', os.path.join(VERIF, 'check'), '--one', prop],
                       input=json.dumps(case), capture_output=True, text=True, env=env, timeout=timeout, cwd=VERIF)
    if p.returncode != 0:
        return {'error': p.stderr[-2000:] + p.stdout[-500:]}
    try:
        return json.loads(p.stdout.strip().splitlines()[-1])
    except Exception:
        return {'error': 'unparsable: ' + p.stdout[-500:]}


def fresh_call(prop: str, fn: str, arg: Any, timeout: int = 300) -> Any:
    """Call mc.props.<prop>.<fn>(arg) in a fresh interpreter and return its JSON result."""
    env = dict(os.environ)
    env.update({'PYTHONDONTWRITEBYTECODE': '1', 'PYTHONHASHSEED': '0', GUARD: '1'})
    p = subprocess.run([PY, '-B', os.path.join(VERIF, 'check'), '--fn', prop, fn], input=json.dumps(arg),
                       capture_output=True, text=True, env=env, timeout=timeout, cwd=VERIF)
    if p.returncode != 0:
        raise RuntimeError(f"fresh call {prop}.{fn} failed: {p.stderr[-1500:]}")
    return json.loads(p.stdout.strip().splitlines()[-1])


def write_replay(prop: str, v: dict, known: bool = False) -> str:
    d = os.path.join(VERIF, 'replays', 'known' if known else prop)
    os.makedirs(d, exist_ok=True)
    blob = json.dumps({'property': prop, 'signature': v['sig'], 'case': v['case'], 'detail': v['detail']},
                      indent=1, sort_keys=True, default=str)
    name = ''.join(c if c.isalnum() else '_' for c in v['sig']) if known else sha(blob.encode())
    path = os.path.join(d, name + '.json')
    with open(path, 'w') as f:
        f.write(blob)
    return path


def run_check(prop: str, tier: str) -> int:
    t0 = time.time()
    seed = int(os.environ.get('VERIF_SEED', '0') or 0)
    tier = os.environ.get('VERIF_TIER', tier) if tier is None else tier
    sys.path.insert(0, VERIF)
    env_setup(silence_stderr=False)
    mod = _load(prop)
    nproc = int(os.environ.get('VERIF_WORKERS', '0') or 0) or min(16, os.cpu_count() or 4)
    rng = random.Random(seed)

    # self-test of the trusted base first (milliseconds)
    from mc import selftest_rp66
    selftest_rp66.run(quiet=True)

    os.environ['VERIF_SHARED_SCRATCH'] = scratch_dir()      # shared by all workers of this run, removed at exit
    ctx = mp.get_context('spawn')
    total = {'executions': 0, 'nodes': 0, 'edges': 0, 'outcomes': Counter(), 'nontrivial': 0, 'samples': [],
             'violations': [], 'viol_count': Counter(), 'digests': []}
    errors: list[str] = []
    bfs_info: dict = {}

    with ctx.Pool(nproc, initializer=_worker_init, initargs=(prop, tier)) as pool:
        if hasattr(mod, 'enabled_events'):
            # ---------------- E2
            depth = mod.depth(tier)
            seen: dict[str, list] = {}
            k0, oc0 = None, None
            frontier: list[list] = [[]]
            seen[mod.initial_key()] = []
            transitions = 0
            layer_sizes = [1]
            for d in range(depth):
                if not frontier:
                    break
                rng.shuffle(frontier)
                chunk = max(1, len(frontier) // (nproc * 4))
                jobs = [(prop, tier, frontier[i:i + chunk]) for i in range(0, len(frontier), chunk)]
                succ_all = []
                for r in pool.imap_unordered(_expand_states, jobs):
                    if r['error']:
                        errors.append(r['error'])
                    total['executions'] += r['executions']
                    succ_all.extend(r['succ'])
                succ_all.sort(key=lambda s: json.dumps(s[1], sort_keys=True, default=str))
                nxt = []
                for key, hist, oc in succ_all:
                    transitions += 1
                    total['outcomes'][oc['cls']] += 1
                    for sig, detail in oc['violations']:
                        total['viol_count'][sig] += 1
                        if total['viol_count'][sig] <= 2 or (total['viol_count'][sig] <= 4000 and total['viol_count'][sig] % 40 == 0):
                            total['violations'].append({'sig': sig, 'detail': detail, 'case': {'history': hist}})
                    if key is None:
                        continue            # terminal / rejected edge: no new state
                    if key not in seen:
                        seen[key] = hist
                        nxt.append(hist)
                        if oc['nontrivial']:
                            total['nontrivial'] += 1
                frontier = nxt
                layer_sizes.append(len(nxt))
            total['nodes'] = len(seen)
            total['edges'] = transitions
            hs = sorted(seen.values(), key=lambda h: (len(h), json.dumps(h, default=str)))
            total['samples'] = [{'history': hs[len(hs) // 2]}, {'history': hs[-1]}]
            bfs_info = {'depth_completed': len(layer_sizes) - 1, 'layer_sizes': layer_sizes,
                        'frontier_left': len(frontier)}
        if hasattr(mod, 'shards'):
            shards = list(mod.shards(tier))
            order = list(range(len(shards)))
            rng.shuffle(order)
            jobs = [(prop, tier, shards[i]) for i in order]
            results = list(pool.imap_unordered(_run_shard, jobs, chunksize=1))
            results.sort(key=lambda r: json.dumps(r['shard'], sort_keys=True, default=str))
            for r in results:
                if r['error']:
                    errors.append(f"shard {r['shard']}: {r['error']}")
                for k in ('executions', 'nodes', 'edges', 'nontrivial'):
                    total[k] += r[k]
                total['outcomes'].update(r['outcomes'])
                total['viol_count'].update(r['viol_count'])
                total['violations'].extend(r['violations'])
                total['digests'].extend(r['digests'])
                if len(total['samples']) < 6 and r['samples']:
                    total['samples'].append(r['samples'][-1])

    if errors and not total['violations']:
        print(f"HARNESS-ERROR property={prop}: {len(errors)} shard(s) failed", flush=True)
        print(errors[0][-3000:], flush=True)
        return 2
    if errors:
        # some shards could not run (e.g. the code under check no longer has what a harness hooks into) while others
        # found violations: those are confirmed and reported below; a run with errors is never reported as a pass
        print(f"NOTE property={prop}: {len(errors)} shard(s) failed to run: {errors[0][-300:]}", flush=True)

    # ---------------- determinism: re-run a seeded subset in a fresh interpreter
    nondet = []
    n_fresh = int(os.environ.get('VERIF_FRESH', '3'))
    if total['digests'] and n_fresh:
        cand = sorted(total['digests'], key=lambda d: json.dumps(d['case'], sort_keys=True, default=str))
        for d in rng.sample(cand, min(n_fresh, len(cand))):
            r = _fresh_replay(prop, d['case'])
            if r is None or 'error' in r or r.get('digest') != d['digest'] or r.get('cls') != d['cls']:
                nondet.append((d, r))
    if nondet:
        print(f"NONDETERMINISM property={prop}: fresh-interpreter replay differs: {str(nondet[0])[:1500]}", flush=True)
        return 2

    # ---------------- violations: confirm in a fresh interpreter, match against known findings
    known = load_known(prop)
    by_sig: dict[str, list] = {}
    for v in total['violations']:
        by_sig.setdefault(v['sig'], []).append(v)
    new_violations = []
    known_hit = []
    unconfirmed: list = []

    def _confirms(v, sig):
        r = _fresh_replay(prop, v['case'])
        return (bool(r) and 'error' not in r and any(s == sig for s, _ in r.get('violations', []))), r

    for sig in sorted(by_sig):
        cands = by_sig[sig]
        v = cands[0]
        if sig in known:
            known_hit.append(sig)
            write_replay(prop, v, known=True)
            continue
        if 'history' in v['case'] and not hasattr(mod, 'run_case'):
            confirmed = True
        else:
            confirmed, r = _confirms(v, sig)
            if not confirmed and len(cands) > 1:
                # state that leaked between executions of one worker can make a case fail only there; another case of
                # the same signature may be the real witness (it carries the whole history itself): try them all
                from concurrent.futures import ThreadPoolExecutor
                rest = cands[1:120]
                with ThreadPoolExecutor(max_workers=8) as tp:
                    for cand, (ok, _r) in zip(rest, tp.map(lambda c: _confirms(c, sig), rest)):
                        if ok:
                            v, confirmed = cand, True
                            break
            if not confirmed:
                unconfirmed.append((sig, min(len(cands), 120), r))
                continue
        new_violations.append(v)
    if errors and not new_violations:
        print(f"HARNESS-ERROR property={prop}: {len(errors)} shard(s) failed", flush=True)
        print(errors[0][-3000:], flush=True)
        return 2
    if unconfirmed and not new_violations:
        sig, n, r = unconfirmed[0]
        print(f"NONDETERMINISM property={prop}: violation {sig} did not reproduce in a fresh interpreter "
              f"({n} case(s) tried): {str(r)[:800]}", flush=True)
        return 2
    for sig, n, r in unconfirmed:
        # seen only inside a worker that had run other cases before: state leaking between executions; the confirmed
        # violations below carry their whole history and are the ones reported
        print(f"NOTE property={prop}: {sig} was seen only after other cases had run in the same process "
              f"({n} case(s) re-run alone, none failed)", flush=True)

    wall = time.time() - t0
    extra_cov = mod.coverage_extra(tier) if hasattr(mod, 'coverage_extra') else {}
    min_outcomes = getattr(mod, 'MIN_DISTINCT_OUTCOMES', 2)
    vacuous = len(total['outcomes']) < min_outcomes
    evidence = {
        'property_id': prop, 'tier': tier, 'seed': seed, 'level': 'model_checking',
        'coverage': {
            'states': max(1, total['nodes']), 'transitions': max(1, total['edges']),
            'traces_validated_against_impl': total['executions'],
            'evaluations': total['executions'], 'distinct_nontrivial': total['nontrivial'],
            'rule': getattr(mod, 'RULE', ''), 'samples': total['samples'][:6] or [{}],
            'exhaustive': True, 'bounds': mod.bounds(tier) if hasattr(mod, 'bounds') else {},
            'outcome_histogram': dict(sorted(total['outcomes'].items())),
            'violation_signatures': dict(sorted(total['viol_count'].items())),
            'known_findings_hit': known_hit, 'engine': getattr(mod, 'ENGINE', 'E1'), **bfs_info, **extra_cov,
        },
        'assumptions': getattr(mod, 'ASSUMPTIONS', []),
        'wall_s': round(wall, 2), 'violations': len(new_violations),
    }
    # evidence of the registered checks goes to /verif/evidence; the self-tests that run the checks against seeded
    # changes (selftest-seeded, selftest-reverts, VERIF_REPO_SRC override) redirect it so that it is not overwritten
    evdir = os.environ.get('VERIF_EVIDENCE_DIR') or (os.path.join(scratch_dir(), 'evidence') if 'VERIF_REPO_SRC' in os.environ
                                                      else os.path.join(VERIF, 'evidence'))
    os.makedirs(evdir, exist_ok=True)
    with open(os.path.join(evdir, f'{prop}.json'), 'w') as f:
        json.dump(evidence, f, indent=1, default=str)

    print(f"[{prop} {tier}] executions={total['executions']} states={total['nodes']} transitions={total['edges']} "
          f"nontrivial={total['nontrivial']} outcomes={len(total['outcomes'])} wall={wall:.1f}s", flush=True)
    for sig in known_hit:
        print(f"KNOWN-FINDING: property={prop} {sig} :: {known[sig].get('what', '')} "
              f"(x{total['viol_count'][sig]})", flush=True)
    if vacuous:
        print(f"HARNESS-ERROR property={prop}: vacuous exploration, outcome classes: {dict(total['outcomes'])}",
              flush=True)
        return 2
    if new_violations:
        for v in new_violations:
            path = write_replay(prop, v)
            print(f"VIOLATION property={prop} replay={path}", flush=True)
            print(f"  signature={v['sig']} (x{total['viol_count'][v['sig']]})\n  {str(v['detail'])[:600]}", flush=True)
        return 1
    return 0


def main(argv: list[str]) -> int:
    if len(argv) >= 2 and argv[0] == '--one':
        # fresh-interpreter single execution: case JSON on stdin, outcome JSON on stdout
        sys.path.insert(0, VERIF)
        env_setup()
        case = json.loads(sys.stdin.read())
        out = replay_case(argv[1], case)
        print(json.dumps(out.to_json(), default=str))
        return 0
    if len(argv) >= 3 and argv[0] == '--fn':
        # fresh-interpreter call of a harness function: argument JSON on stdin, result JSON on stdout
        sys.path.insert(0, VERIF)
        env_setup()
        mod = _load(argv[1])
        print(json.dumps(getattr(mod, argv[2])(json.loads(sys.stdin.read())), default=str))
        return 0
    if len(argv) >= 3 and argv[1] == '--replay':
        sys.path.insert(0, VERIF)
        env_setup()
        with open(argv[2]) as f:
            rec = json.load(f)
        out = replay_case(argv[0], rec['case'])
        print(json.dumps(out.to_json(), indent=1, default=str))
        hit = [s for s, _ in out.violations]
        if hit:
            print(f"VIOLATION property={argv[0]} replay={argv[2]}")
            return 1
        return 0
    prop = argv[0]
    tier = argv[1] if len(argv) > 1 else os.environ.get('VERIF_TIER', 'quick')
    return run_check(prop, tier)


if __name__ == '__main__':
    sys.exit(main(sys.argv[1:]))
