"""Cross-validation of the strict reader against dlisio (an independent, widely used reader) on files that the real
dliswriter produces from a rich specification: same logical files, same sets/objects, same attribute values and
units, same curves.  Part of setup_cmd; keeps the trusted base honest in the direction the negative corpus cannot
(values dlisio and mc/rp66 both decode must agree)."""
from __future__ import annotations

import math
import os
import sys

VERIF = os.path.dirname(os.path.dirname(os.path.abspath(__file__)))


def rich_spec(vrl: int):
    from mc import spec as S
    ops = [S.op_lf(fh_id='RICH FILE'), S.op_origin('O0', 'ORIGIN-A', company='ACME', well_name='W-1', programs=['P1', 'P2'],
                                                   descent_number=3, file_number=9),
           S.op_origin('O1', 'ORIGIN-B'),
           S.op_add('axis', 'A0', 'AXIS-0', axis_id='AX0', coordinates=[1, 2, 3], spacing={'$as': {'value': 0.5, 'units': 'm'}}),
           S.op_add('long_name', 'LN', 'LNAME', quantity='pressure', conditions=['hot', 'wet']),
           S.op_add('zone', 'Z0', 'ZONE-0', description='first zone', domain='TIME', maximum=20.5, minimum=1.25),
           S.op_add('zone', 'Z1', 'ZONE-0', domain='BOREHOLE-DEPTH', maximum=1300.0, minimum=100.0),
           S.op_add('channel', 'C0', 'DEPTH', units='m', long_name={'$ref': 'LN'},
                    data=S.arr_spec('float64', [4], [0x4000000000000000 + (k << 48) for k in range(4)])),
           S.op_add('channel', 'C1', 'AMPLITUDE', axis=[{'$ref': 'A0'}], cast_dtype={'$dtype': 'float32'},
                    data=S.arr_spec('float64', [4, 3], [0x3FF0000000000000 + (k << 47) for k in range(12)])),
           S.op_add('channel', 'C2', 'COUNTS', properties=['AVERAGED', 'CALIBRATED'],
                    data=S.arr_spec('int16', [4], [1, 0xFFFF, 300, 0x8000])),
           S.op_add('frame', 'F0', 'MAIN', channels=[{'$ref': 'C0'}, {'$ref': 'C1'}, {'$ref': 'C2'}],
                    index_type='BOREHOLE-DEPTH', description='main frame'),
           S.op_add('parameter', 'P0', 'PARAM', zones=[{'$ref': 'Z0'}, {'$ref': 'Z1'}], values=[1.5, 2.5],
                    long_name='a parameter'),
           S.op_add('equipment', 'E0', 'EQ-0', trademark_name='TM', status=1, eq_type='Tool', serial_number='SN-1',
                    height={'$as': {'value': 12.5, 'units': 'in'}}),
           S.op_add('tool', 'T0', 'TOOL-0', description='a tool', parts=[{'$ref': 'E0'}], channels=[{'$ref': 'C1'}, {'$ref': 'C2'}],
                    parameters=[{'$ref': 'P0'}], status=0),
           S.op_add('comment', 'CM', 'COMMENT', text=['line one', 'line two']),
           S.op_add('message', 'M', 'MESSAGE', message_type='Command', time={'$dt': [2021, 5, 6, 7, 8, 9, 250000], 'tz': 0},
                    text=['hello']),
           S.op_add('no_format', 'N', 'BLOB', consumer_name='SOME-NAME', description='raw bytes'),
           {'op': 'nfdata', 'lf': 'L0', 'nf': 'N', 'data': {'$bytes': bytes(range(50)).hex()}}]
    return {'sul': {'max_record_length': vrl, 'set_identifier': 'CROSS-CHECK'}, 'ops': ops, 'write': {}}


def _norm(v):
    import numpy as np
    from datetime import datetime
    if isinstance(v, (np.generic,)):
        v = v.item()
    if isinstance(v, bytes):
        v = v.decode()
    if isinstance(v, float):
        return round(v, 9) if math.isfinite(v) else repr(v)
    if isinstance(v, datetime):
        return v.replace(tzinfo=None).isoformat()
    return v


def compare(path: str, data: bytes) -> int:
    from dlisio import dlis
    from mc import rp66 as R
    phys = R.parse_physical(data)
    lfs = R.split_logical_files(phys)
    n = 0
    with dlis.load(path) as files:
        files = list(files)
        assert len(files) == len(lfs), (len(files), len(lfs))
        for f, lf in zip(files, lfs):
            for s in lf.sets:
                if s.type == 'FILE-HEADER':
                    continue
                objs = {(o.origin, o.copynumber, o.name): o for o in f.find(s.type, '.*')} if s.type != 'ORIGIN' else \
                    {(o.origin, o.copynumber, o.name): o for o in f.origins}
                for ob in s.objects:
                    key = (ob.name.origin, ob.name.copy, ob.name.name)
                    assert key in objs, f"{s.type} {key} not found by dlisio ({sorted(objs)})"
                    d = objs[key]
                    for a in ob.attrs:
                        if a.absent or a.e_values is None:
                            assert a.e_label not in d.attic.keys() or list(d.attic[a.e_label].value) == [], \
                                f"{s.type}:{key}.{a.e_label} absent for rp66, dlisio has {d.attic[a.e_label].value}"
                            continue
                        da = d.attic[a.e_label]
                        dv = list(da.value)
                        assert len(dv) == len(a.e_values), (s.type, key, a.e_label, dv, a.e_values)
                        for x, y in zip(a.e_values, dv):
                            if isinstance(x, R.ObName):
                                assert (y.origin, y.copynumber, y.id) == (x.origin, x.copy, x.name), (x, y)
                            elif isinstance(x, R.ObjRef):
                                assert (y.type, y.origin, y.copynumber, y.id) == (x.type, x.obname.origin, x.obname.copy,
                                                                                 x.obname.name), (x, y)
                            elif isinstance(x, dict):
                                assert _norm(y) == x['dt'].isoformat(), (x, y)
                            else:
                                assert _norm(x) == _norm(y), (s.type, key, a.e_label, x, y)
                        if a.e_units:
                            assert da.units == a.e_units, (s.type, key, a.e_label, da.units, a.e_units)
                        n += 1
            # curves
            for fo in lf.objects('FRAME'):
                fr = f.object('FRAME', fo.name.name, fo.name.origin, fo.name.copy)
                curves = fr.curves()
                chans = {o.name: o for o in lf.objects('CHANNEL')}
                layout = []
                for c in R.attr_values(fo, 'CHANNELS'):
                    co = chans[c]
                    dim = R.attr_values(co, 'DIMENSION')
                    k = 1
                    for x in dim:
                        k *= x
                    layout.append((R.attr_values(co, 'REPRESENTATION-CODE')[0], k, c.name))
                row = 0
                for _, r, _s in lf.records:
                    if r.is_eflr or r.type != 0:
                        continue
                    ref, fno, slots = R.slice_fdata(r.body, [(c, k) for c, k, _ in layout])
                    if ref != fo.name:
                        continue
                    assert curves['FRAMENO'][row] == fno
                    for (code, k, name), sl in zip(layout, slots):
                        mine = [R.decode_value(code, b, 0)[0] for b in sl]
                        theirs = curves[name][row]
                        theirs = list(theirs.ravel()) if hasattr(theirs, 'ravel') else [theirs]
                        assert [_norm(x) for x in mine] == [_norm(x) for x in theirs], (name, row, mine, theirs)
                        n += 1
                    row += 1
                assert row == len(curves), (row, len(curves))
    return n


def run(quiet: bool = False) -> int:
    sys.path.insert(0, VERIF)
    from mc import engine, spec as S
    engine.env_setup()
    total = 0
    for vrl in (8192, 128, 40):
        engine.reset_globals()
        sp = rich_spec(vrl)
        res = S.run_spec(sp, fname='crosscheck.dlis')
        assert res['write'] == 'ok' and res['failed_at'] is None, res
        total += compare(res['path'], res['data'])
    if not quiet:
        print(f"dlisio cross-check of mc/rp66.py: {total} attribute and slot comparisons agree")
    return total


if __name__ == '__main__':
    run()
