"""C14 — output depends only on the current specification, not on process history."""
from __future__ import annotations

import copy
import hashlib
import json
import os

from mc import spec as S
from mc.engine import Outcome, sha, scratch_dir, fresh_call

ID = 'C14'
ENGINE = 'E2 explicit-state BFS over process histories, differential against a fresh interpreter'
RULE = ("breadth-first search over process histories: file(S_i) = build and write specification i on fresh objects "
        "(pool engineered to collide in every per-process cache, with different record lengths: 0.0/-0.0/0, IDENT 1/1.0/True, same names with other "
        "origins and copy numbers, ZONE vs PARAMETER record type, equal instants in different zones), rewrite of the "
        "last built objects, mutate-and-rewrite (origin reference of a zone, a channel, the frame and the NO-FORMAT object; attribute value, index channel units, data, data of another per-row shape, data of another dtype, window, chunk sizes, a user value equal to the one derived before, objects added after the first write), enter/leave "
        "high-compatibility mode; the process-global state is deliberately NOT reset between events of a history; "
        "oracle: the bytes of the last write equal those of a fresh interpreter that builds the final specification "
        "alone; non-trivial = state whose last event wrote a file that was compared")
ASSUMPTIONS = ["fresh-interpreter reference computed once per distinct final specification and cached on tmpfs",
               "all pool specifications conform to high-compatibility mode so that the flag cannot legitimately "
               "change the bytes; the flag in force at build and write time is replayed in the reference"]
MIN_DISTINCT_OUTCOMES = 2

F64 = {'p0': 0x0000000000000000, 'n0': 0x8000000000000000, 'one': 0x3FF0000000000000, 'two': 0x4000000000000000}


def _spec(i):
    ops = [S.op_lf(), S.op_origin('O0', 'ORIGIN-A'), S.op_origin('O1', 'ORIGIN-B')]
    zero = {'$f': '0000000000000000'}
    nzero = {'$f': '8000000000000000'}
    chan0 = [F64['one'], F64['two'], 0x4008000000000000]
    if i == 0:
        v, ft, name, dt = [zero], 'TYPE-1', 'X', {'$dt': [2020, 1, 2, 3, 0, 0, 0], 'tz': 0}
    elif i == 1:
        v, ft, name, dt = [nzero], 'TYPE-1', 'X', {'$dt': [2020, 1, 2, 4, 0, 0, 0], 'tz': 60}
    elif i == 2:
        v, ft, name, dt = [0], 1, 'X', {'$dt': [2020, 1, 2, 3, 0, 0, 0], 'tz': 0}
    elif i == 3:
        v, ft, name, dt = [1.5], 1.0, 'Y', {'$dt': [2020, 1, 2, 3, 0, 0, 0], 'tz': 0}
    elif i == 4:
        v, ft, name, dt = [1], True, 'X', {'$dt': [2021, 1, 2, 3, 0, 0, 0], 'tz': 0}
    elif i == 6:
        # does NOT conform to the high-compatibility mode (lower-case object name): builds with a warning outside the
        # mode, is refused inside it - so a leaked mode flag shows as a failure a fresh process does not have
        v, ft, name, dt = [1.25], 'TYPE-1', 'lower case name', {'$dt': [2020, 1, 2, 3, 0, 0, 0], 'tz': 0}
    else:
        v, ft, name, dt = [zero], 'TYPE-1', 'X', {'$dt': [2020, 1, 2, 3, 0, 0, 0], 'tz': 0}
    ops[1]['kw'].update(file_type=ft, creation_time=dt)
    ops.append(S.op_add('zone', 'Z0', name, domain='BOREHOLE-DEPTH', maximum=v[0] if isinstance(v[0], dict) else float(v[0]), minimum=0))
    if i == 5:
        ops.append(S.op_add('zone', 'Z1', name, origin_reference=1))       # same name, other origin
        ops.append(S.op_add('zone', 'Z2', name))                           # same name, copy number 1
    ops.append(S.op_add('parameter', 'P0', name, values=v, zones=[{'$ref': 'Z0'}]))
    ops.append(S.op_add('channel', 'C0', 'DEPTH', data=S.arr_spec('float64', [3], chan0), units='m'))
    pat = [F64['p0'], F64['n0'], F64['one']] if i % 2 == 0 else [F64['n0'], F64['p0'], F64['two']]
    ops.append(S.op_add('channel', 'C1', 'CH-B', data=S.arr_spec('float64', [3], pat)))
    ops.append(S.op_add('frame', 'F0', name, channels=[{'$ref': 'C0'}, {'$ref': 'C1'}], index_type='BOREHOLE-DEPTH'))
    if i in (3, 5):
        # other record classes/types (AXIS 2, LNAME 9, SCRIPT 6, UDI 8, IFLR NOFMT 1): per-class caches must not mix
        ops.append(S.op_add('axis', 'AX', name, axis_id='AXIS-ID', coordinates=[0.0, 1.0] if i == 3 else [1, 2]))
        ops.append(S.op_add('long_name', 'LN', name, quantity='QUANTITY'))
        ops.append(S.op_add('comment', 'CM', name, text=['TEXT-1', '1', '1.0'] if i == 3 else ['1.0', 'TEXT-1']))
        ops.append(S.op_add('no_format', 'NF', name, consumer_name='CONSUMER'))
        ops.append({'op': 'nfdata', 'lf': 'L0', 'nf': 'NF', 'data': {'$bytes': '00017f80ff' if i == 3 else '0100'}})
        ops.append({'op': 'nfdata', 'lf': 'L0', 'nf': 'NF', 'data': 'text payload %d' % i})
        ops.append(S.op_add('well_reference_point', 'WR', name, magnetic_declination={'$f': '8000000000000000'} if i == 5 else 0))
    # (record lengths differ between the specifications: anything remembered per record size must not carry over)
    vrl = {2: 128, 4: 64, 5: 256}.get(i, 8192)
    return {'sul': {'max_record_length': vrl, 'set_identifier': 'SET-1'}, 'ops': ops, 'write': {}}


NSPEC = 7
MUTS = ['origin_ref', 'value', 'units', 'data', 'window', 'shape', 'dtype', 'add', 'chunks', 'pin', 'refused']
EVENTS = [f'F{i}' for i in range(NSPEC)] + ['RW'] + [f'M:{m}' for m in MUTS] + ['HC+', 'HC-', 'HCX']


def depth(tier):
    return 3 if tier == 'quick' else 5


def bounds(tier):
    return {'depth': depth(tier), 'events': EVENTS, 'pool': NSPEC}


def initial_key():
    return 'init'


def enabled_events(h, tier):
    built = any(e.startswith('F') for e in h)
    hc = sum(1 for e in h if e == 'HC+') - sum(1 for e in h if e == 'HC-')
    out = []
    for e in EVENTS:
        if e in ('RW',) or e.startswith('M:'):
            if not built:
                continue
            if e.startswith('M:') and e in _muts_since_build(h):
                continue
        if e == 'HC-' and hc <= 0:
            continue
        if e == 'HC+' and hc >= 1:
            continue
        out.append(e)
    return out


def _muts_since_build(h):
    out = []
    for e in h:
        if e.startswith('F'):
            out = []
        elif e.startswith('M:'):
            out.append(e)
    return out


def mutation_ops(m, spec=None):
    if m == 'origin_ref':
        # a zone, a channel of the frame, the frame itself (its data records refer to it) and, where there is one, the
        # NO-FORMAT object (its records refer to it) are moved to the second origin
        hs = ['Z0', 'C1', 'F0'] + (['NF'] if spec and any(op.get('h') == 'NF' for op in spec['ops']) else [])
        return [{'op': 'origin_ref', 'h': h, 'value': 1} for h in hs], {}
    if m == 'refused':
        # calls that are REFUSED (run_history makes them; they are no part of the specification): a write whose index
        # data are two-dimensional, an add_origin whose reference is taken and which names a new set; afterwards two
        # origins are added, the second one to the set the refused call named, and a window is used for the next write
        return [S.op_origin('O8', 'ORIGIN-LATER-1', set_name='LATER-SET'),
                S.op_origin('O9', 'ORIGIN-LATER-2', set_name='REFUSED-SET')], {'from_idx': 1}
    if m == 'units':
        return [{'op': 'set', 'h': 'C0', 'attr': 'units', 'part': 'value', 'value': 'ft'}], {}
    if m == 'value':
        return [{'op': 'set', 'h': 'P0', 'attr': 'values', 'part': 'value', 'value': [2.5]}], {}
    if m == 'data':
        return [], {'data': {'$datadict': {'CH-B': S.arr_spec('float64', [3], [F64['two'], F64['n0'], F64['n0']])}}}
    if m == 'window':
        return [], {'from_idx': 1}
    if m == 'pin':
        # the user assigns the frame's INDEX-MAX - to the very value the previous write derived (3.0) - and writes fewer
        # rows: what he assigned stays
        return [{'op': 'set', 'h': 'F0', 'attr': 'index_max', 'part': 'value', 'value': 3.0}], {'to_idx': 2}
    if m == 'chunks':
        # other chunk sizes for the next write (the file must not depend on them, nor on those of earlier writes)
        return [], {'input_chunk_size': 1, 'output_chunk_size': 8192}
    if m == 'add':
        # more objects are added to the already written file: a same-named zone (copy number), a parameter referring
        # to both zones, a third origin, and a no-format record
        return [S.op_add('zone', 'ZA', 'X', description='added later'),
                S.op_add('parameter', 'PA2', 'ADDED', zones=[{'$ref': 'Z0'}, {'$ref': 'ZA'}], values=[1.0, 2.0]),
                S.op_origin('O2', 'ORIGIN-C'),
                S.op_add('no_format', 'NFA', 'ADDED-NF'),
                {'op': 'nfdata', 'lf': 'L0', 'nf': 'NFA', 'data': {'$bytes': '0a0b0c'}}], {}
    if m == 'dtype':
        # data of another dtype for the second channel (values not representable in float32 stay float64 on a fresh run)
        return [], {'data': {'$datadict': {'CH-B': S.arr_spec('float32', [3], [0x3F800001, 0x80000000, 0x7F7FFFFF])}}}
    if m == 'shape':
        # the second channel's data gets another per-row shape (3 columns instead of a scalar)
        return [], {'data': {'$datadict': {'CH-B': S.arr_spec('float64', [3, 3], [F64['one'] + k for k in range(9)])}}}
    raise ValueError(m)


def final_spec(h):
    """The specification in force at the last write of the history (None when the last event did not write)."""
    cur = None
    hc = 0
    hc_build = 0
    for e in h:
        if e == 'HC+':
            hc += 1
        elif e == 'HC-':
            hc -= 1
        elif e.startswith('F'):
            cur = _spec(int(e[1:]))
            hc_build = hc
        elif e.startswith('M:'):
            ops, wkw = mutation_ops(e[2:], cur)
            cur['ops'] = cur['ops'] + ops
            cur['write'] = dict(cur['write'], **wkw)
    if cur is None or h[-1] in ('HC+', 'HC-', 'HCX'):
        return None
    return {'spec': cur, 'hc_build': bool(hc_build), 'hc_write': bool(hc)}


def reference(fs):
    """Executed in a FRESH interpreter: build and write the final specification alone."""
    sp = fs['spec']
    pre = [{'op': 'hc', 'enter': True}] if fs['hc_build'] else []
    ops = list(sp['ops'])
    lf = [ops[0]]
    body = ops[1:]
    sp2 = dict(sp, ops=pre + lf + body)
    b = S.build(sp2)
    if b.failed_at is not None:
        S._unwind(b)
        return {'error': f"build: {b.status[-1]}"}
    # flag at write time
    from dliswriter.configuration import global_config
    global_config.high_compat_mode = bool(fs['hc_write'])
    path = os.path.join(scratch_dir(), 'ref14.dlis')
    try:
        b.df.write(path, **S.write_kwargs(sp2, b))
    except Exception as e:  # noqa
        return {'error': f"write: {type(e).__name__}: {e}"}
    finally:
        global_config.high_compat_mode = False
    return {'hex': open(path, 'rb').read().hex()}


def _ref_bytes(fs):
    key = hashlib.sha256(json.dumps(fs, sort_keys=True).encode()).hexdigest()[:24]
    d = os.environ.get('VERIF_SHARED_SCRATCH') or scratch_dir()
    p = os.path.join(d, key)
    if os.path.exists(p):
        with open(p) as f:
            return json.load(f)
    r = fresh_call('c14', 'reference', fs)
    tmp = p + f'.{os.getpid()}'
    with open(tmp, 'w') as f:
        json.dump(r, f)
    os.replace(tmp, p)
    return r


def run_history(h):
    """Replay the whole history in THIS process without resetting process-global state between events."""
    from dliswriter.configuration import global_config
    from dliswriter import high_compatibility_mode
    cms = []
    built = None
    spec_now = None
    last = None
    path = os.path.join(scratch_dir(), 'c14.dlis')
    try:
        for idx, e in enumerate(h):
            is_last = idx == len(h) - 1
            last = None
            if e == 'HC+':
                cm = high_compatibility_mode()
                cm.__enter__()
                cms.append(cm)
            elif e == 'HC-':
                cms.pop().__exit__(None, None, None)
            elif e == 'HCX':
                # a high-compatibility block that is left by an exception (handled by the caller)
                try:
                    with high_compatibility_mode():
                        raise LookupError('rejected inside the block')
                except LookupError:
                    pass
            else:
                if e.startswith('F'):
                    spec_now = _spec(int(e[1:]))
                    built = S.build(spec_now)
                    if built.failed_at is not None:
                        if is_last:
                            return ('build-raised', built.status[-1])
                        built = None            # refused (e.g. by the mode in force): nothing to write; carry on
                        continue
                if built is None:
                    if is_last:
                        return ('nothing-built', 'the specification the event refers to was refused earlier')
                    continue
                elif e.startswith('M:'):
                    ops, wkw = mutation_ops(e[2:], spec_now)
                    if e == 'M:refused':
                        import numpy as np
                        try:
                            built.df.write(path, output_chunk_size=2 ** 16,
                                           data={'DEPTH': np.arange(9000.0, 9006.0).reshape(3, 2)})
                            return ('harness', 'the write with two-dimensional index data was not refused')
                        except Exception:  # noqa
                            pass
                        st = S.apply_op(built, S.op_origin('OX', 'REFUSED', origin_reference=1, set_name='REFUSED-SET'))
                        if st == 'ok':
                            return ('harness', 'add_origin with a taken reference was not refused')
                    for op in ops:
                        st = S.apply_op(built, op)
                        if st != 'ok':
                            return ('mutation-raised', st)
                    spec_now = dict(spec_now, write=dict(spec_now['write'], **wkw))
                if os.path.exists(path):
                    os.remove(path)
                try:
                    built.df.write(path, **S.write_kwargs(spec_now, built))
                except Exception as ex:  # noqa
                    return ('write-raised', f"{type(ex).__name__}: {ex}")
                last = open(path, 'rb').read()
    finally:
        while cms:
            cms.pop().__exit__(None, None, None)
        global_config.high_compat_mode = False
    return ('ok', last)


def check_state(h):
    fs = final_spec(h)
    st, got = run_history(h)
    viol = []
    if fs is None:
        # the last event did not write: nothing to compare (failures of earlier writes are reported at their own state)
        return Outcome('no-write', viol, False)
    ref = _ref_bytes(fs)
    if st == 'nothing-built':
        return Outcome('nothing-built', [], False)
    if st != 'ok':
        if 'error' not in ref:
            kind = 'rewrite' if _mut_tag(h).startswith('rewrite') else 'after-other-files'
            viol.append((f"C14:{st}:fresh-process-succeeds:{kind}:{str(got).split(':')[0]}", f"{got} | history={h}"))
        return Outcome(st, viol, True, digest=str(got)[:40])
    if 'error' in ref:
        viol.append((f"C14:fresh-process-fails:{_mut_tag(h)}", f"{ref['error']} | history={h}"))
        return Outcome('ref-error', viol, True)
    want = bytes.fromhex(ref['hex'])
    if got != want:
        where = _locate(got, want)
        kind = 'rewrite' if _mut_tag(h).startswith('rewrite') else 'after-other-files'
        viol.append((f"C14:differs:{kind}:{where}", f"bytes of the last write differ from a fresh process "
                                                           f"({where}) | history={h}"))
    return Outcome('ok:' + _mut_tag(h), viol, True, digest=sha(got))


def _mut_tag(h):
    m = [e[2:] for e in _muts_since_build(h)]
    rw = 'rewrite' if (h[-1] == 'RW' or m) else 'first-write'
    return rw + (':' + '+'.join(sorted(m)) if m else '')


def _locate(got, want):
    from mc import rp66 as R
    try:
        a, b = R.parse_physical(got).records, R.parse_physical(want).records
    except R.FormatError as e:
        return 'unparsable'
    if len(a) != len(b):
        return 'record-count'
    for i, (x, y) in enumerate(zip(a, b)):
        if x.body != y.body:
            if x.is_eflr:
                try:
                    return 'set:' + R.parse_eflr(y.body).type
                except R.FormatError:
                    return 'eflr'
            return 'iflr'
    return 'framing'


def step(h, tier):
    return json.dumps(h), check_state(h)


def run_case(case):
    return check_state(case['history'])
