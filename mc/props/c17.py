"""C17 — high-compatibility mode enforces its restrictions and never leaks."""
from __future__ import annotations

import json
import logging
import os
import re

from mc import spec as S, rp66 as R
from mc.engine import Outcome, sha, scratch_dir
from mc.schema import KINDS

ID = 'C17'
ENGINE = 'E2 explicit-state BFS over context-manager histories + E1 product of restricted aspects'
RULE = ("(a) breadth-first search over histories of enter / leave / leave-by-exception / decorated call / decorated "
        "call that raises / decorated call calling a decorated call / 'with' inside a decorated call / build conforming / build breaching / write events; the flag is compared with a stack model "
        "after every event and breaching builds must raise exactly when the model says the mode is on; (b) one "
        "restricted aspect violated at a time (non-conforming name for each of the 21 object kinds, set identifier, "
        "header id, validated IDENT attributes; signed-integer channel; channel in 0 / 2 frames; non-uniform index; "
        "non-standard unit on a channel / on an attribute, index type, equipment type and location; eleven shapes of a bad identifier such as a trailing line feed) x {inside, inside after the same inputs were used outside in the same process, nested "
        "inside, outside, after leaving by exception, object created outside and value assigned inside, object created "
        "inside and value assigned after leaving}: inside every breach must raise and the conforming file must "
        "satisfy all restrictions at once (checked on the decoded file, incl. sequential file-set numbers); outside "
        "the same inputs must be accepted and produce a WARNING log record; non-trivial = every case")
ASSUMPTIONS = ["strict reader mc/rp66.py", "'set identifier' = storage-set identifier of the label (EFLR set names are "
               "not restricted by the mode)", "the Unit enumeration of dliswriter.utils.enums is taken as the "
               "standard's unit list for the conformance check of written files"]
MIN_DISTINCT_OUTCOMES = 2
NAME_RE = re.compile(r"[A-Z0-9_-]+")

EVENTS = ['E', 'X', 'XE', 'D', 'DE', 'DD', 'DW', 'DR', 'DRE', 'BC', 'BB', 'W']     # DD: decorated calls decorated; DW: 'with' inside decorated; DR / DRE: a decorated function re-entering ITSELF (the inner call returning / raising)


def depth(tier):
    return 4 if tier == 'quick' else 6


def bounds(tier):
    return {'depth': depth(tier), 'events': EVENTS, 'aspects': len(ASPECTS)}


def initial_key():
    return '[]'


def enabled_events(h, tier):
    d = sum(1 for e in h if e == 'E') - sum(1 for e in h if e in ('X', 'XE'))
    out = []
    for e in EVENTS:
        if e in ('X', 'XE') and d <= 0:
            continue
        if e == 'E' and d >= 3:
            continue
        if e == 'W' and not any(x == 'BC' for x in h):
            continue
        out.append(e)
    return out


class _Log(logging.Handler):
    def __init__(self):
        super().__init__(logging.WARNING)
        self.records = []

    def emit(self, record):
        self.records.append(record)


def _with_logging(fn):
    """Run fn with dliswriter WARNING records captured (the engine disables logging globally)."""
    h = _Log()
    lg = logging.getLogger('dliswriter')
    old_level = lg.level
    logging.disable(logging.NOTSET)
    lg.addHandler(h)
    lg.setLevel(logging.WARNING)
    try:
        return fn(), h.records
    finally:
        lg.removeHandler(h)
        lg.setLevel(old_level)
        logging.disable(logging.CRITICAL)


def conforming_spec(two_origins=False, fsn=True):
    okw = {} if fsn else {'file_set_number': None}
    ops = [S.op_lf(fh_id='HEADER-ID'), S.op_origin('O0', 'ORIGIN-0', **okw)]
    if not fsn:
        ops[1]['kw'].pop('file_set_number')
    if two_origins:
        ops.append(S.op_origin('O1', 'ORIGIN-1'))
        if not fsn:
            ops[2]['kw'].pop('file_set_number')
    ops += [S.op_add('channel', 'C0', 'DEPTH', units='m',
                     data=S.arr_spec('float64', [3], [0x3FF0000000000000, 0x4000000000000000, 0x4008000000000000])),
            S.op_add('channel', 'C1', 'RPM', data=S.arr_spec('uint16', [3], [1, 2, 3])),
            S.op_add('frame', 'F0', 'MAIN-FRAME', channels=[{'$ref': 'C0'}, {'$ref': 'C1'}], index_type='BOREHOLE-DEPTH')]
    return {'sul': {'max_record_length': 8192, 'set_identifier': 'SET-ID_1'}, 'ops': ops, 'write': {}}


# --------------------------------------------------------------------------------------------------------- part (a)
def check_history(h):
    from dliswriter import high_compatibility_mode, high_compatibility_mode_decorator
    from dliswriter.configuration import global_config
    stack = []
    model = [False]         # model: flag value; stack of saved values
    saved = []
    viol = []
    built = None
    path = os.path.join(scratch_dir(), 'c17.dlis')

    def flag_ok(where):
        want = model[0]
        got = global_config.high_compat_mode
        if got != want:
            viol.append((f"C17:flag:{'stuck-on' if got else 'lost'}", f"after {where} the mode is {got}, stack model says {want} "
                                                                      f"| history={h}"))
            return False
        return True

    try:
        for i, e in enumerate(h):
            if e == 'E':
                cm = high_compatibility_mode()
                cm.__enter__()
                stack.append(cm)
                saved.append(model[0])
                model[0] = True
            elif e == 'X':
                stack.pop().__exit__(None, None, None)
                model[0] = saved.pop()
            elif e == 'XE':
                exc = RuntimeError('boom')
                try:
                    r = stack.pop().__exit__(RuntimeError, exc, None)
                except RuntimeError:
                    r = False
                if r:
                    viol.append(("C17:exception-swallowed", f"context manager swallowed the exception | history={h}"))
                model[0] = saved.pop()
            elif e in ('D', 'DE'):
                seen = {}

                @high_compatibility_mode_decorator
                def f():
                    seen['inside'] = global_config.high_compat_mode
                    if e == 'DE':
                        raise KeyError('inside decorated function')
                try:
                    f()
                except KeyError:
                    pass
                if seen.get('inside') is not True:
                    viol.append(("C17:decorator-not-on", f"mode was {seen.get('inside')} inside a decorated call | history={h}"))
            elif e in ('DD', 'DW'):
                seen = {}

                @high_compatibility_mode_decorator
                def inner():
                    seen['inner'] = global_config.high_compat_mode

                @high_compatibility_mode_decorator
                def outer():
                    seen['before'] = global_config.high_compat_mode
                    if e == 'DD':
                        inner()                     # a decorated function called from a decorated function
                    else:
                        with high_compatibility_mode():
                            seen['inner'] = global_config.high_compat_mode
                    seen['after'] = global_config.high_compat_mode
                outer()
                if not (seen.get('before') is True and seen.get('inner') is True and seen.get('after') is True):
                    viol.append(("C17:decorator-not-on:nested", f"mode inside nested decorated scopes: {seen} | history={h}"))
            elif e in ('DR', 'DRE'):
                seen = {}

                @high_compatibility_mode_decorator
                def rec(level):
                    seen[f'in{level}'] = global_config.high_compat_mode
                    if level < 2:
                        try:
                            rec(level + 1)          # the SAME decorated function is active twice (thrice)
                        except KeyError:
                            pass
                    elif e == 'DRE':
                        raise KeyError('innermost call of the re-entered decorated function')
                    seen[f'out{level}'] = global_config.high_compat_mode
                rec(0)
                if not all(v is True for v in seen.values()) or len(seen) < 5:
                    viol.append(("C17:decorator-not-on:re-entered", f"mode inside a re-entered decorated function: {seen} | history={h}"))
            elif e == 'BC':
                b = S.build(conforming_spec())
                if b.failed_at is not None:
                    viol.append(("C17:conforming-build-raised", f"{b.status[-1]} | history={h}"))
                else:
                    built = b
            elif e == 'BB':
                sp = conforming_spec()
                sp['ops'][2]['name'] = 'Depth'
                (b, recs) = _with_logging(lambda: S.build(sp))
                raised = b.failed_at is not None
                if model[0] and not raised:
                    viol.append(("C17:breach-accepted-inside", f"lower-case channel name accepted while the mode is on | history={h}"))
                if not model[0] and raised:
                    viol.append(("C17:breach-raised-outside", f"{b.status[-1]} | history={h}"))
                if not model[0] and not raised and not any('uppercase' in r.getMessage() for r in recs):
                    viol.append(("C17:no-warning-outside:name", f"lower-case channel name accepted outside the mode without a "
                                                                f"WARNING log record | history={h}"))
            elif e == 'W' and built is not None:
                try:
                    if os.path.exists(path):
                        os.remove(path)
                    built.df.write(path, output_chunk_size=2 ** 16)
                except Exception as ex:  # noqa
                    viol.append(("C17:conforming-write-raised", f"{type(ex).__name__}: {ex} | history={h}"))
            if not flag_ok(f"event {i} ({e})"):
                break
    finally:
        while stack:
            try:
                stack.pop().__exit__(None, None, None)
            except Exception:  # noqa
                pass
        global_config.high_compat_mode = False
    d = sum(1 for e in h if e == 'E') - sum(1 for e in h if e in ('X', 'XE'))
    return Outcome(f"depth={d}:{'exc' if ('XE' in h or 'DE' in h) else 'plain'}", viol, True, digest=str(len(viol)))


def step(h, tier):
    return json.dumps(h), check_history(h)


# --------------------------------------------------------------------------------------------------------- part (b)
ASPECTS = [f'name:{k}' for k in KINDS] + ['set-identifier', 'header-id', 'ident:axis_id', 'ident:serial_number',
                                          'ident:label', 'ident:type', 'signed-int', 'channel-in-no-frame',
                                          'channel-in-two-frames', 'non-uniform-index', 'non-uniform-index+spacing',
                                          'non-uniform-index+direction', 'non-uniform-index+index-min-max',
                                          'non-uniform-index-decreasing', 'non-uniform-index-up-and-down',
                                          'channel-in-two-frames-and-another-in-none',
                                          'unit:channel', 'unit:attr',
                                          'index-type', 'eq-type', 'eq-location', 'none', 'none-no-fsn']
# other shapes of a non-conforming identifier (one trailing line feed is what `$` in a regular expression lets through)
SHAPES = ['RPM\n', '\nRPM', 'RPM ', ' RPM', 'R.PM', 'rpm', 'RPM\r', 'R\tPM', 'RPM\n\n', 'R/PM', 'RPM\x00']
SHAPED = ['name:channel', 'name:zone', 'set-identifier', 'header-id', 'ident:axis_id', 'ident:label']
ASPECTS += [f'{a}|{i}' for a in SHAPED for i in range(len(SHAPES))]
# values spelled like the NAME of a member of the enumeration (not one of its values)
ASPECTS += ['unit:channel@METER', 'unit:attr@METER', 'index-type@BOREHOLE_DEPTH', 'eq-type@TOOL', 'eq-location@WELL',
            'unit:channel@Meter', 'index-type@borehole-depth']
# 'inside-after-outside-use': the same inputs were first used outside the mode in this process (accepted there)
WHERE = ['inside', 'inside-after-outside-use', 'nested', 'outside', 'after-exception']
# the object is created in one mode and the breaching value is assigned (through the public setters) in the other
CROSS = ['cross:out-in', 'cross:in-out']
LATER = {
    'unit:channel': ({'op': 'set', 'h': 'C0', 'attr': 'units', 'part': 'value', 'value': 'furlong'}, None),
    'unit:attr': ({'op': 'set', 'h': 'X', 'attr': 'spacing', 'part': 'units', 'value': 'my-unit'},
                  ('axis', 'X', 'AXIS', {'spacing': 1.0})),
    'index-type': ({'op': 'set', 'h': 'F0', 'attr': 'index_type', 'part': 'value', 'value': 'MY-INDEX'}, None),
    'eq-type': ({'op': 'set', 'h': 'X', 'attr': '_type', 'part': 'value', 'value': 'Custom-Type'},
                ('equipment', 'X', 'EQUIPMENT', {})),
    'eq-location': ({'op': 'set', 'h': 'X', 'attr': 'location', 'part': 'value', 'value': 'Somewhere'},
                    ('equipment', 'X', 'EQUIPMENT', {})),
    'ident:axis_id': ({'op': 'set', 'h': 'X', 'attr': 'axis_id', 'part': 'value', 'value': 'Axis id'},
                      ('axis', 'X', 'AXIS', {})),
    'ident:serial_number': ({'op': 'set', 'h': 'X', 'attr': 'serial_number', 'part': 'value', 'value': 'sn 12'},
                            ('equipment', 'X', 'EQUIPMENT', {})),
}


def shards(tier):
    return [{'aspect': a} for a in ASPECTS]


def cases(shard, tier):
    for w in WHERE:
        yield {'aspect': shard['aspect'], 'where': w}
    if shard['aspect'] in LATER:
        for w in CROSS:
            yield {'aspect': shard['aspect'], 'where': w}


def cross_spec(aspect, where):
    sp = conforming_spec()
    set_op, creation = LATER[aspect]
    if creation:
        kind, h, name, kw = creation
        sp['ops'].append(S.op_add(kind, h, name, **kw))
    set_op = dict(set_op)
    if where == 'cross:out-in':
        # everything is created outside the mode; the assignment and the write happen inside
        set_op['expect'] = 'raise'
        sp['ops'] += [{'op': 'hc', 'enter': True}, set_op]
    else:
        # everything is created inside the mode; the assignment and the write happen after leaving it
        sp['ops'] = [{'op': 'hc', 'enter': True}] + sp['ops'] + [{'op': 'hc', 'enter': False}, set_op]
    return sp


def breach_spec(aspect):
    sp = conforming_spec(two_origins=(aspect == 'none-no-fsn'), fsn=(aspect != 'none-no-fsn'))
    ops = sp['ops']
    bad = 'Lower case'
    alt = None
    if '@' in aspect:
        aspect, alt = aspect.split('@')
    if '|' in aspect:
        aspect, i = aspect.split('|')
        bad = SHAPES[int(i)]
        if aspect == 'set-identifier':
            sp['sul']['set_identifier'] = bad
        elif aspect == 'header-id':
            ops[0]['kw']['fh_id'] = bad
        elif aspect == 'ident:axis_id':
            ops.append(S.op_add('axis', 'X', 'AXIS', axis_id=bad))
        elif aspect == 'ident:label':
            ops.append(S.op_add('calibration_coefficient', 'X', 'COEF', label=bad))
        if not aspect.startswith('name:'):
            return sp
    if aspect.startswith('name:'):
        kind = aspect[5:]
        if kind == 'origin':
            ops[1]['name'] = bad
        elif kind == 'channel':
            ops[2]['name'] = bad
        elif kind == 'frame':
            ops[4]['name'] = bad
        else:
            kw = {}
            ops.append(S.op_add(kind, 'X', bad, **kw))
    elif aspect == 'set-identifier':
        sp['sul']['set_identifier'] = 'my set'
    elif aspect == 'header-id':
        ops[0]['kw']['fh_id'] = 'Header id'
    elif aspect == 'ident:axis_id':
        ops.append(S.op_add('axis', 'X', 'AXIS', axis_id='Axis id'))
    elif aspect == 'ident:serial_number':
        ops.append(S.op_add('equipment', 'X', 'EQUIPMENT', serial_number='sn 12'))
    elif aspect == 'ident:label':
        ops.append(S.op_add('calibration_coefficient', 'X', 'COEF', label='my label'))
    elif aspect == 'ident:type':
        ops.append(S.op_add('calibration_measurement', 'X', 'MEAS', measurement_type='some type'))
    elif aspect == 'signed-int':
        ops[3]['kw']['data'] = S.arr_spec('int16', [3], [1, 2, 3])
    elif aspect == 'channel-in-no-frame':
        ops.append(S.op_add('channel', 'C2', 'LONELY', data=S.arr_spec('uint8', [3], [1, 2, 3])))
    elif aspect == 'channel-in-two-frames-and-another-in-none':
        # two breaches whose channel-to-frame counts cancel out
        ops.append(S.op_add('channel', 'C2', 'LONELY', data=S.arr_spec('uint8', [3], [1, 2, 3])))
        ops.append(S.op_add('frame', 'F1', 'SECOND-FRAME', channels=[{'$ref': 'C1'}]))
    elif aspect == 'channel-in-two-frames':
        ops.append(S.op_add('frame', 'F1', 'SECOND-FRAME', channels=[{'$ref': 'C1'}]))
    elif aspect.startswith('non-uniform-index'):
        ops[2]['kw']['data'] = S.arr_spec('float64', [3], [0x3FF0000000000000, 0x4000000000000000, 0x4024000000000000])
        if aspect.endswith('-decreasing'):
            ops[2]['kw']['data'] = S.arr_spec('float64', [3], [0x4024000000000000, 0x4000000000000000, 0x3FF0000000000000])
        elif aspect.endswith('-up-and-down'):
            ops[2]['kw']['data'] = S.arr_spec('float64', [3], [0x4000000000000000, 0x4024000000000000, 0x3FF0000000000000])
        if aspect.endswith('+spacing'):
            ops[4]['kw']['spacing'] = 1.0
        elif aspect.endswith('+direction'):
            ops[4]['kw']['direction'] = 'INCREASING'
        elif aspect.endswith('+index-min-max'):
            ops[4]['kw'].update(index_min=1.0, index_max=10.0)
    elif aspect == 'unit:channel':
        ops[2]['kw']['units'] = alt or 'furlong'
    elif aspect == 'unit:attr':
        ops.append(S.op_add('axis', 'X', 'AXIS', spacing={'$as': {'value': 1.0, 'units': alt or 'my-unit'}}))
    elif aspect == 'index-type':
        ops[4]['kw']['index_type'] = alt or 'MY-INDEX'
    elif aspect == 'eq-type':
        ops.append(S.op_add('equipment', 'X', 'EQUIPMENT', eq_type=alt or 'Custom-Type'))
    elif aspect == 'eq-location':
        ops.append(S.op_add('equipment', 'X', 'EQUIPMENT', location=alt or 'Somewhere'))
    return sp


def conformance_errors(data, aspect):
    """All restrictions of the mode, checked on the decoded file."""
    from dliswriter.utils import enums
    errs = []
    phys = R.parse_physical(data)
    if not NAME_RE.fullmatch(phys.sul['setid'].rstrip(' ')):
        errs.append(('set-identifier', phys.sul['setid']))
    lfs = R.split_logical_files(phys)
    units_ok = {u.value for u in enums.Unit}
    for lf in lfs:
        hdr = lf.sets[0].objects[0]
        hid = (R.attr_values(hdr, 'ID') or [''])[0].rstrip(' ')
        if not NAME_RE.fullmatch(hid):
            errs.append(('header-id', hid))
        chan_use = {}
        for s in lf.sets:
            for ob in s.objects:
                if s.type != 'FILE-HEADER' and not NAME_RE.fullmatch(ob.name.name):
                    errs.append(('object-name', f"{s.type}:{ob.name.name}"))
                for a in ob.attrs:
                    if not a.absent and a.e_units and a.e_units not in units_ok:
                        errs.append(('units', f"{s.type}:{ob.name.name}.{a.e_label} {a.e_units}"))
                if s.type == 'CHANNEL':
                    chan_use.setdefault(ob.name, 0)
                    rc = R.attr_values(ob, 'REPRESENTATION-CODE')
                    if rc and rc[0] in (R.SSHORT, R.SNORM, R.SLONG):
                        errs.append(('signed-channel', ob.name.name))
                    u = R.attr_values(ob, 'UNITS')
                    if u and u[0] not in units_ok:
                        errs.append(('channel-units', u[0]))
        for fo in lf.objects('FRAME'):
            for c in R.attr_values(fo, 'CHANNELS') or []:
                chan_use[c] = chan_use.get(c, 0) + 1
            it = R.attr_values(fo, 'INDEX-TYPE')
            if it:
                if it[0] not in {x.value for x in enums.FrameIndexType}:
                    errs.append(('index-type', it[0]))
                if not R.attr_values(fo, 'SPACING'):
                    errs.append(('indexed-frame-without-spacing', fo.name.name))
        for c, n in chan_use.items():
            if n != 1:
                errs.append(('channel-frames', f"{c.name} in {n} frames"))
        for eo in lf.objects('EQUIPMENT'):
            t, loc = R.attr_values(eo, 'TYPE'), R.attr_values(eo, 'LOCATION')
            if t and t[0] not in {x.value for x in enums.EquipmentType}:
                errs.append(('eq-type', t[0]))
            if loc and loc[0] not in {x.value for x in enums.EquipmentLocation}:
                errs.append(('eq-location', loc[0]))
        if aspect == 'none-no-fsn':
            fsn = [(R.attr_values(o, 'FILE-SET-NUMBER') or [None])[0] for o in lf.objects('ORIGIN')]
            if fsn != list(range(1, len(fsn) + 1)):
                errs.append(('file-set-numbers', str(fsn)))
    return errs


def run_case(c):
    if 'history' in c:
        return check_history(c['history'])
    from dliswriter import high_compatibility_mode
    from dliswriter.configuration import global_config
    aspect, where = c['aspect'], c['where']
    viol = []
    if where in CROSS:
        sp = cross_spec(aspect, where)

        def build_and_write():
            b = S.build(sp)
            st = list(b.status)
            wrote = None
            if b.failed_at is None and all(x == 'ok' for x in st):
                p_ = os.path.join(scratch_dir(), 'c17x.dlis')
                try:
                    b.df.write(p_, output_chunk_size=2 ** 16)
                    wrote = 'ok'
                except Exception as e:  # noqa
                    wrote = f"raised:{type(e).__name__}: {e}"
            S._unwind(b)
            return st, wrote
        try:
            (st, wrote), recs = _with_logging(build_and_write)
        finally:
            global_config.high_compat_mode = False
        assign_status = st[-1] if st else 'none'
        if where == 'cross:out-in':
            if assign_status == 'ok' and wrote == 'ok':
                viol.append((f"C17:breach-accepted-inside:{aspect.split(':')[0]}:assigned-after-creation-outside",
                             f"{aspect} assigned inside the mode to an object created outside it was accepted and written | {c}"))
        else:
            if assign_status != 'ok' or wrote != 'ok':
                viol.append((f"C17:raised-outside:{aspect.split(':')[0]}:object-created-inside",
                             f"{assign_status} / {wrote}: after leaving the mode the assignment must be accepted | {c}"))
            elif not [r for r in recs if r.levelno >= logging.WARNING]:
                viol.append((f"C17:no-warning-outside:{aspect.split(':')[0]}", f"{c}"))
        return Outcome(f"{where}:{'rejected' if assign_status != 'ok' else 'accepted'}", viol, True, digest=str(assign_status)[:30])
    sp = breach_spec(aspect)
    breach = not aspect.startswith('none')

    def go():
        return S.run_spec(sp)

    def run_inside(levels):
        if levels == 0:
            return _with_logging(go)
        with high_compatibility_mode():
            return run_inside(levels - 1)

    try:
        if where == 'inside':
            res, recs = run_inside(1)
        elif where == 'inside-after-outside-use':
            _with_logging(go)
            res, recs = run_inside(1)
        elif where == 'nested':
            with high_compatibility_mode():
                try:
                    with high_compatibility_mode():
                        raise LookupError('leave the inner context by exception')
                except LookupError:
                    pass
                res, recs = _with_logging(go)       # still inside the outer context
        elif where == 'after-exception':
            try:
                with high_compatibility_mode():
                    raise LookupError('leave by exception')
            except LookupError:
                pass
            res, recs = _with_logging(go)
        else:
            res, recs = _with_logging(go)
    finally:
        leaked = global_config.high_compat_mode
        global_config.high_compat_mode = False
    if leaked:
        viol.append(("C17:flag:stuck-on", f"mode still on after all contexts were left | {c}"))
    raised = res['failed_at'] is not None or res['write'] != 'ok'
    why = (res['status'][-1] if res['failed_at'] is not None else res['write'])
    inside = where in ('inside', 'nested', 'inside-after-outside-use')
    if inside:
        if breach and not raised:
            viol.append((f"C17:breach-accepted-inside:{aspect.split(':')[0]}", f"{aspect} accepted inside the mode ({where}) | {c}"))
        if not breach:
            if raised:
                viol.append((f"C17:conforming-rejected-inside", f"{why} | {c}"))
            else:
                try:
                    for code, d in conformance_errors(res['data'], aspect):
                        viol.append((f"C17:nonconforming-file-inside:{code}", f"{d} | {c}"))
                except R.FormatError as e:
                    viol.append((f"C17:unparsable:{e.code}", f"{e} | {c}"))
    else:
        if raised:
            viol.append((f"C17:raised-outside:{aspect.split(':')[0]}", f"{why} ({where}) | {c}"))
        elif breach and not [r for r in recs if r.levelno >= logging.WARNING]:
            viol.append((f"C17:no-warning-outside:{aspect.split(':')[0]}", f"{aspect} accepted outside the mode ({where}) "
                                                                           f"without a WARNING log record | {c}"))
    return Outcome(f"{where}:{'raised' if raised else 'written'}", viol, True,
                   digest=('raised' if raised else sha(res['data'])))
