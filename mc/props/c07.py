"""C07 — object identity is unique and every reference resolves in its logical file."""
from __future__ import annotations

from mc import hist, spec as S, model as M, rp66 as R
from mc.engine import Outcome, sha

ID = 'C07'
ENGINE = 'E2 explicit-state BFS over add_* histories'
RULE = ("breadth-first search over histories of add_* events (origin with/without explicit reference - also reference 0 requested explicitly - at any position, "
        "axis, zone, long name, channels in default and named sets, frame, parameter, tool, group, no-format, zone "
        "with the second origin's reference; thorough adds computation, splice, path, calibration, process, equipment, "
        "well reference point), all objects named 'X' so that names collide within and across types; each state is "
        "completed (missing origin/channel/frame added last), written and strictly decoded; states are merged on the "
        "canonical reference-model state with sets sorted by key (creation order of different sets is irrelevant to "
        "identities and references); plus, for 2..3 logical files with distinct set names, all interleavings of their "
        "add_* sequences (origins with explicit references, objects before/after the origin): identities, references "
        "and origins must stay inside each logical file; and 3 / 129 / 130 / 256 same-named zones or channels (copy "
        "numbers up to the one-byte limit) with references to the copies around 127/128 and to the last one; equally named objects in two differently named sets for every one of the 21 kinds (orders AB, AAB, ABA, ABB; frame-data and no-format records checked against the identities); and re-identification: 1..2 of nine referenced objects (axis, channel, frame, group, long name, no-format, parameter, tool, zone) moved to a second origin between two writes of one file object, the second file checked for identities, every reference, frame-data and no-format record headers; non-trivial = a transition / case whose file was written and "
        "compared")
ASSUMPTIONS = ["strict reader mc/rp66.py", "reference model mc/model.py (copy number = earlier same-named objects of "
               "the set; origin = explicit reference, else defining origin's, back-filled when the origin comes later)"]
MIN_DISTINCT_OUTCOMES = 2


def depth(tier):
    return 5 if tier == "quick" else 7


def canon_state(h):
    """Canonical state for the identity/reference oracle: the reference-model state with the sets sorted by key.

    Correctness argument for merging: copy numbers depend only on the ordered object list of each set; origin
    numbering and back-filling only on the ordered list of origins and on which objects have no origin yet;
    references only on the handles' identities. None of them, and no clause of this check's oracle, depends on the
    order in which *different* sets were first created (that order only moves whole records in the file: C09's
    business, which uses the unmerged enumeration). Two histories with equal canonical state therefore have equal
    futures for C07."""
    import hashlib
    import json
    m = M.Model(hist.to_spec(h, complete=False))
    ids = {hh: (o.kind, o.set_name, o.lf.sets[(o.kind, o.set_name)].index(o)) for hh, o in m.objs.items()}

    def enc(v):
        if isinstance(v, dict) and '$ref' in v:
            return ['ref', ids[v['$ref']]]
        if isinstance(v, list):
            return [enc(x) for x in v]
        if isinstance(v, dict) and '$arr' in v:
            return 'arr'
        return v
    sets = []
    for (k, sn), lst in sorted(m.lfs[0].sets.items(), key=lambda kv: (kv[0][0], kv[0][1] or '')):
        sets.append([k, sn, [[o.name, o.origin, o.copy, {a: enc(e.get('value')) for a, e in sorted(o.attrs.items())}]
                             for o in lst]])
    origins = [ids[o.h] for o in m.lfs[0].objs_of('origin')]
    nf = [[ids[hh], b.hex()] for hh, b in m.lfs[0].nf]
    free = [c for c in hist.free_channels(h)]
    return hashlib.sha256(json.dumps([sets, origins, nf, free], sort_keys=True, default=str).encode()).hexdigest()[:20]


def bounds(tier):
    return {'depth': depth(tier), 'events': hist.QUICK_EVENTS if tier == 'quick' else hist.THOROUGH_EVENTS,
            'max_per_event': hist.MAXC}


def initial_key():
    return canon_state([])


def enabled_events(h, tier):
    return hist.enabled_events(h, tier)


REF_CODES = ('value_reference', 'object_missing', 'value_missing', 'value_count', 'label_missing')


def check_state(h):
    sp = hist.to_spec(h)
    res = S.run_spec(sp)
    viol = []
    if res['failed_at'] is not None:
        viol.append(("C07:valid-history-rejected:build", f"{res['status'][-1]} | history={h}"))
        return Outcome('build-raised', viol, False)
    if res['write'] != 'ok':
        viol.append(("C07:valid-history-rejected:write", f"{res['write']} | history={h}"))
        return Outcome('write-raised', viol, False)
    try:
        lfs = R.split_logical_files(R.parse_physical(res['data']))
        m = M.Model(sp)
        mlf, lf = m.lfs[0], lfs[0]
        errs = M.check_identity_and_refs(m, mlf, lf) + M.check_inventory(m, mlf, lf)
        errs += [(c, d) for c, d in M.check_attrs(m, mlf, lf) if c.split(':')[0] in REF_CODES]
        errs += [(c, d) for c, d in M.check_rows(m, mlf, lf) + M.check_noformat(m, mlf, lf)
                 if c in ('fdata_unknown_frame', 'nf_ref', 'fdata_header', 'nf_header')]
        for code, d in errs:
            viol.append((f"C07:{code}", f"{d[:300]} | history={h}"))
    except R.FormatError as e:
        viol.append((f"C07:unparsable:{e.code}", f"{e} | history={h}"))
    tags = []
    if h and h[0] not in ('O', 'O5', 'O0') and ('O' in h or 'O5' in h or 'O0' in h):
        tags.append('origin-later')
    if not ('O' in h or 'O5' in h or 'O0' in h):
        tags.append('origin-last')
    if any(hist.count(h, e) > 1 for e in ('AX', 'ZN', 'CH', 'PA', 'GR', 'FR')):
        tags.append('same-name')
    return Outcome('ok:' + '+'.join(tags), viol, True, digest=sha(res['data']))


def step(h, tier):
    return canon_state(h), check_state(h)


# ---------------------------------------------------------------------------------------------------------------------
# several logical files: identities, references and origins must stay inside each logical file
# ---------------------------------------------------------------------------------------------------------------------
def shards(tier):
    from mc.props import c18
    return [s for s in c18.shards(tier) if s.get('kind') == 'lf' and s['mode'] == 'distinct'] + [{'kind': 'many-copies'}, {'kind': 'reidentify'}, {'kind': 'kinds-across-sets'}, {'kind': 'caller-lists'},
                                                                                              {'kind': 'origin-numbering'}]


def cases(shard, tier):
    from mc.props import c18
    if shard.get('kind') == 'many-copies':
        for n in (3, 129, 130, 256):
            for kind in ('zone', 'channel'):
                yield {'many_copies': n, 'kind': kind}
        return
    if shard.get('kind') == 'caller-lists':
        # the caller keeps ONE list, passes it as the value of a reference attribute, extends it and passes it again:
        # every object refers to what the list held when it was passed
        for attr in CALLER_LIST_ATTRS:
            for route in ('kw', 'as', 'later'):
                for steps in (2, 3):
                    yield {'caller_list': attr, 'route': route, 'steps': steps}
        return
    if shard.get('kind') == 'kinds-across-sets':
        # for EVERY object kind: equally named objects in two differently named sets of the kind (each add_* method has
        # its own copy of the set look-up / registration code)
        from mc.schema import KINDS
        for k in KINDS:
            for order in ('AB', 'AAB', 'ABA', 'ABB'):
                yield {'across_sets': k, 'order': order}
            # ... followed by a call of the same kind and set that is refused because of its NAME (not a string): the
            # objects added before must all stay defined and referable
            yield {'across_sets': k, 'order': 'AB', 'then_rejected_name': True}
            yield {'across_sets': k, 'order': 'A', 'then_rejected_name': True}
        # objects first, then the logical file's first add_origin is refused, then an origin with ANOTHER reference than
        # the refused one would have got: every object must belong to an origin that is in the file
        for bad in ('creation_time', 'well_id', 'name'):
            for ref in (None, 3):
                yield {'refused_first_origin': bad, 'retry_ref': ref}
        return
    if shard.get('kind') == 'origin-numbering':
        # every sequence of 1..3 (thorough: 4) add_origin calls, each with the reference left to the library (None, 0) or
        # requested (1, 2, 5; a reference that is taken must be refused), with equally named zones before the first
        # origin (one of them already carrying the reference of an origin to come) and after the last one (one per origin)
        import itertools
        for n in range(1, 4 if tier == 'quick' else 5):
            for refs in itertools.product((None, 0, 1, 2, 5), repeat=n):
                final = origin_refs_of(refs)
                yield {'origin_numbering': list(refs), 'pre': None}
                for r in sorted({x for x in final if x}):
                    yield {'origin_numbering': list(refs), 'pre': r}
        return
    if shard.get('kind') == 'reidentify':
        # the identity (origin reference) of 1..2 objects is changed between two writes of the same file object:
        # the second file must define and refer to them under the new identity everywhere
        for a in REIDENT_TARGETS:
            yield {'reidentify': [a]}
            for b in REIDENT_TARGETS:
                if a < b:
                    yield {'reidentify': [a, b]}
        return
    for c in c18.cases(shard, tier):
        if c.get('wdata') is None:
            yield c


REIDENT_TARGETS = ['A', 'C', 'F', 'G', 'LN', 'N', 'P', 'T', 'Z']


# (kind of the referring object, keyword, kind of the referred objects)
CALLER_LIST_ATTRS = ['tool.channels', 'parameter.zones', 'splice.input_channels', 'group.group_list', 'group.object_list',
                     'calibration.calibrated_channels', 'process.input_channels', 'computation.zones', 'tool.parameters']


def caller_list_spec(case):
    kind, kw = case['caller_list'].split('.')
    ops = [S.op_lf(), S.op_origin(), S.op_origin('O5', 'SECOND-ORIGIN', origin_reference=5)]
    # same-named targets with different copy numbers / origins, so that a wrong reference is also a wrong identity
    targets = {'channels': 'channel', 'input_channels': 'channel', 'calibrated_channels': 'channel', 'zones': 'zone',
               'group_list': 'group', 'object_list': 'zone', 'parameters': 'parameter'}[kw]
    th = []
    for j in range(4):
        extra = {'data': S.arr_spec('uint8', [2], [j, j + 1])} if targets == 'channel' else {}
        if targets == 'parameter':
            extra = {'values': [float(j)]}
        if j == 3:
            extra['origin_reference'] = 5
        ops.append(S.op_add(targets, f'T{j}', 'SAME' if j != 1 else 'OTHER', **extra))
        th.append(f'T{j}')
    if targets == 'channel':
        for j in range(4):
            ops.append(S.op_add('frame', f'F{j}', f'FRAME-{j}', channels=[{'$ref': f'T{j}'}]))
    else:
        ops.append(S.op_add('channel', 'C', 'CHAN', data=S.arr_spec('uint8', [2], [1, 2])))
        ops.append(S.op_add('frame', 'F', 'FRAME', channels=[{'$ref': 'C'}]))
    shared = {'$shared_list': 'L', 'init': [{'$ref': th[0]}]}
    for step in range(case['steps']):
        if step:
            ops.append({'op': 'list_append', 'key': 'L', 'value': {'$ref': th[step + 1]}})
        h = f'R{step}'
        extra = {'values': [1.0 + k for k in range(step + 1)]} if kind in ('parameter', 'computation') and kw == 'zones' else {}
        if kind == 'splice':
            extra = {'output_channel': {'$ref': th[1]}}
        if case['route'] == 'kw':
            ops.append(S.op_add(kind, h, f'REFERRER-{step}', **dict(extra, **{kw: shared})))
        elif case['route'] == 'as':
            ops.append(S.op_add(kind, h, f'REFERRER-{step}', **dict(extra, **{kw: {'$as': {'value': shared}}})))
        else:
            ops.append(S.op_add(kind, h, f'REFERRER-{step}', **extra))
            ops.append({'op': 'set', 'h': h, 'attr': kw, 'part': 'value', 'value': shared})
    return {'sul': {'max_record_length': 8192}, 'ops': ops, 'write': {}}


def origin_refs_of(refs):
    """The documented numbering: a requested reference is taken as it is (refused when taken already; 0 / None mean
    'choose'), otherwise the number of origins so far, counted up until it is free.  Refused calls give None."""
    used, out = [], []
    for r in refs:
        if r:
            if r in used:
                out.append(None)
                continue
            new = r
        else:
            new = len(used)
            while new in used:
                new += 1
        used.append(new)
        out.append(new)
    return out


def origin_numbering_spec(case):
    refs = case['origin_numbering']
    final = origin_refs_of(refs)
    ops = [S.op_lf()]
    zs = []
    if case['pre'] is not None:
        ops.append(S.op_add('zone', 'ZP0', 'SAME'))
        ops.append(S.op_add('zone', 'ZP1', 'SAME', origin_reference=case['pre']))
        zs += ['ZP0', 'ZP1']
    for i, (r, f) in enumerate(zip(refs, final)):
        o = S.op_origin(f'O{i}', f'ORIGIN-{i}', **({} if r is None else {'origin_reference': r}))
        if f is None:
            o['expect'] = 'raise'
        ops.append(o)
    for i, f in enumerate(final):
        if f:
            ops.append(S.op_add('zone', f'ZA{i}', 'SAME', origin_reference=f))
            zs.append(f'ZA{i}')
    ops.append(S.op_add('zone', 'ZL', 'SAME'))
    zs.append('ZL')
    ops += [S.op_add('channel', 'C', 'CHAN', data=S.arr_spec('uint8', [2], [1, 2])),
            S.op_add('frame', 'F', 'FRAME', channels=[{'$ref': 'C'}]),
            S.op_add('splice', 'SP', 'SPLICE', zones=[{'$ref': z} for z in zs], output_channel={'$ref': 'C'})]
    return {'sul': {'max_record_length': 8192}, 'ops': ops, 'write': {}}


def refused_origin_spec(case):
    bad = case['refused_first_origin']
    kwb = {'creation_time': 'not a date'} if bad == 'creation_time' else {'well_id': 5} if bad == 'well_id' else {}
    rej = S.op_origin('RJ', 5 if bad == 'name' else 'REFUSED', **kwb)
    rej['expect'] = 'raise'
    ok = S.op_origin('O0', 'ORIGIN', **({'origin_reference': case['retry_ref']} if case['retry_ref'] else {}))
    ops = [S.op_lf(),
           S.op_add('channel', 'C', 'CHAN', data=S.arr_spec('uint8', [2], [1, 2])),
           S.op_add('frame', 'F', 'FRAME', channels=[{'$ref': 'C'}]),
           S.op_add('zone', 'Z', 'ZONE'), S.op_add('parameter', 'P', 'PARAM', zones=[{'$ref': 'Z'}], values=[1.0]),
           rej, ok, S.op_add('tool', 'T', 'TOOL', channels=[{'$ref': 'C'}], parameters=[{'$ref': 'P'}])]
    return {'sul': {'max_record_length': 8192}, 'ops': ops, 'write': {}}


def across_sets_spec(case):
    from mc.props.c20 import KIND_REJECT
    k = case['across_sets']
    good = KIND_REJECT[k][1]
    ops = [S.op_lf(), S.op_origin(),
           S.op_add('channel', 'C', 'CHAN', data=S.arr_spec('uint8', [2], [1, 2])),
           S.op_add('channel', 'C2', 'CHAN2', data=S.arr_spec('uint8', [2], [3, 4])),
           S.op_add('channel', 'C3', 'CHAN3', data=S.arr_spec('uint8', [2], [5, 6])),
           S.op_add('channel', 'C4', 'CHAN4', data=S.arr_spec('uint8', [2], [7, 8])),
           S.op_add('frame', 'F', 'FRAME', channels=[{'$ref': 'C'}]), S.op_add('zone', 'Z', 'ZONE')]
    free = ['C2', 'C3', 'C4']
    hs = []
    for j, sname in enumerate(case['order']):
        kw = dict(good)
        if k == 'frame':
            kw['channels'] = [{'$ref': free[j]}]
        if k == 'channel':
            kw['data'] = S.arr_spec('uint8', [2], [10 + j, 20 + j])
        if k == 'origin':
            kw.pop('file_set_number', None)
        ops.append(S.op_add(k, f'X{j}', 'SAME', set_name=f'SET-{sname}', **kw))
        hs.append(f'X{j}')
    if case.get('then_rejected_name'):
        kw = dict(good)
        if k == 'frame':
            kw['channels'] = [{'$ref': 'C4'}]
        if k == 'origin':
            kw.pop('file_set_number', None)
        ops.append(S.op_add(k, 'RJ', 5, expect='raise', set_name=f"SET-{case['order'][-1]}", **kw))
    if k != 'frame':
        ops.append(S.op_add('frame', 'F2', 'FRAME2', channels=[{'$ref': h} for h in free]))
    else:
        for h in free[len(case['order']):]:
            ops.append(S.op_add('frame', f'F-{h}', f'FRAME-{h}', channels=[{'$ref': h}]))
    if k == 'channel':
        for j, h in enumerate(hs):
            ops.append(S.op_add('frame', f'FX{j}', f'FRAME-X{j}', channels=[{'$ref': h}]))
    if k == 'no_format':
        for j, h in enumerate(hs + hs):
            ops.append({'op': 'nfdata', 'lf': 'L0', 'nf': h, 'data': f'payload {j} of {h}'})
    # every copy is referred to once (OBJREF carries the set type, OBNAME only origin / copy / name)
    ops.append(S.op_add('group', 'G', 'GROUP', object_list=[{'$ref': h} for h in hs]))
    return {'sul': {'max_record_length': 8192}, 'ops': ops, 'write': {}}


def reidentify_spec():
    return {'sul': {'max_record_length': 8192}, 'write': {}, 'ops': [
        S.op_lf(), S.op_origin(), S.op_origin('O5', 'SECOND-ORIGIN', origin_reference=5),
        S.op_add('zone', 'Z', 'ZONE'), S.op_add('axis', 'A', 'AXIS', coordinates=[1.0]),
        S.op_add('long_name', 'LN', 'LNAME', quantity='some quantity'),
        S.op_add('parameter', 'P', 'PARAM', zones=[{'$ref': 'Z'}], values=[1.5], long_name={'$ref': 'LN'}),
        S.op_add('channel', 'C', 'CHAN', axis=[{'$ref': 'A'}], long_name={'$ref': 'LN'},
                 data=S.arr_spec('uint8', [2], [1, 2])),
        S.op_add('frame', 'F', 'FRAME', channels=[{'$ref': 'C'}]),
        S.op_add('no_format', 'N', 'NOFORMAT'),
        {'op': 'nfdata', 'lf': 'L0', 'nf': 'N', 'data': 'text payload'},
        {'op': 'nfdata', 'lf': 'L0', 'nf': 'N', 'data': {'$bytes': '0102030405'}},
        S.op_add('tool', 'T', 'TOOL', channels=[{'$ref': 'C'}], parameters=[{'$ref': 'P'}]),
        S.op_add('group', 'G', 'GROUP', object_list=[{'$ref': 'Z'}, {'$ref': 'C'}, {'$ref': 'N'}]),
        S.op_add('group', 'GG', 'GROUP-OF-GROUPS', group_list=[{'$ref': 'G'}], object_list=[{'$ref': 'F'}, {'$ref': 'T'}]),
        S.op_add('calibration', 'CA', 'CALIB', calibrated_channels=[{'$ref': 'C'}], parameters=[{'$ref': 'P'}]),
        S.op_add('splice', 'SP', 'SPLICE', output_channel={'$ref': 'C'}, zones=[{'$ref': 'Z'}]),
        S.op_add('path', 'PT', 'PATH', frame_type={'$ref': 'F'}, value=[{'$ref': 'C'}]),
        S.op_add('computation', 'CP', 'COMPUTATION', zones=[{'$ref': 'Z'}], axis=[{'$ref': 'A'}], source={'$ref': 'T'},
                 values=[2.5]),
    ]}


def run_reidentify(case):
    import os
    from mc.engine import scratch_dir
    sp = reidentify_spec()
    b = S.build(sp)
    if b.failed_at is not None:
        return Outcome('harness', [("C07:harness:reidentify-spec-failed", b.status[-1])], False)
    path = os.path.join(scratch_dir(), 'c07-reident.dlis')
    viol = []
    try:
        b.df.write(path, **S.write_kwargs(sp, b))
        extra = [{'op': 'origin_ref', 'h': h, 'value': 5} for h in case['reidentify']]
        for op in extra:
            st = S.apply_op(b, op)
            if st != 'ok':
                return Outcome('harness', [("C07:harness:origin-ref-op-failed", f"{st} | {case}")], False)
        b.df.write(path, **S.write_kwargs(sp, b))
        data = open(path, 'rb').read()
    except Exception as e:  # noqa
        return Outcome('reidentify:raised', [("C07:reidentify:valid-rejected", f"{type(e).__name__}: {e} | {case}")], True)
    sp2 = dict(sp, ops=sp['ops'] + extra)
    try:
        lfs = R.split_logical_files(R.parse_physical(data))
        m = M.Model(sp2)
        mlf, lf = m.lfs[0], lfs[0]
        errs = M.check_identity_and_refs(m, mlf, lf) + M.check_inventory(m, mlf, lf) + M.check_noformat(m, mlf, lf)
        errs += [(c, d) for c, d in M.check_attrs(m, mlf, lf) if c.split(':')[0] in REF_CODES]
        errs += M.check_rows(m, mlf, lf)
        for code, d in errs:
            viol.append((f"C07:reidentify:{code.split(':')[0]}", f"{d[:250]} | {case}"))
    except R.FormatError as e:
        viol.append((f"C07:reidentify:unparsable:{e.code}", f"{e} | {case}"))
    return Outcome('ok:reidentify', viol, True, digest=sha(data))


def many_copies_spec(case):
    """n same-named objects of one type (copy numbers 0..n-1, up to the one-byte limit 255) and references to the
    copies around the 127/128 boundary and to the last one."""
    n, kind = case['many_copies'], case['kind']
    ops = [S.op_lf(), S.op_origin()]
    picks = sorted({0, 1, min(n - 1, 126), min(n - 1, 127), min(n - 1, 128), n - 1})
    if kind == 'zone':
        for k in range(n):
            ops.append(S.op_add('zone', f'Z{k}', 'SAME', description=f'copy {k}'))
        ops.append(S.op_add('parameter', 'P', 'PARAM', zones=[{'$ref': f'Z{k}'} for k in picks], values=[float(k) for k in picks]))
        ops.append(S.op_add('group', 'G', 'GROUP', object_list=[{'$ref': f'Z{k}'} for k in picks]))
        ops.append(S.op_add('channel', 'C', 'CHAN', data=S.arr_spec('uint8', [2], [1, 2])))
        ops.append(S.op_add('frame', 'F', 'FRAME', channels=[{'$ref': 'C'}]))
    else:
        for k in range(n):
            ops.append(S.op_add('channel', f'C{k}', 'SAME', data=S.arr_spec('uint8', [2], [k % 250, (k + 1) % 250])))
        for j, k in enumerate(picks):
            ops.append(S.op_add('frame', f'F{j}', f'FRAME-{j}', channels=[{'$ref': f'C{k}'}]))
        ops.append(S.op_add('tool', 'T', 'TOOL', channels=[{'$ref': f'C{k}'} for k in picks]))
        # every channel must be in a frame for a warning-free file: not required by the property, so leave the rest
    return {'sul': {'max_record_length': 8192}, 'ops': ops, 'write': {}}


def run_case(case):
    if 'history' in case:
        return check_state(case['history'])
    from mc.props import c18
    if 'reidentify' in case:
        return run_reidentify(case)
    if 'refused_first_origin' in case:
        sp = refused_origin_spec(case)
        brief, fam = case, 'refused-first-origin'
    elif 'origin_numbering' in case:
        sp = origin_numbering_spec(case)
        brief, fam = case, 'origin-numbering'
    elif 'caller_list' in case:
        sp = caller_list_spec(case)
        brief, fam = case, 'caller-list'
    elif 'across_sets' in case:
        sp = across_sets_spec(case)
        brief, fam = case, 'across-sets'
    elif 'many_copies' in case:
        sp = many_copies_spec(case)
        brief, fam = case, 'many-copies'
    else:
        sp = c18.lf_spec(case)
        brief, fam = c18._brief(case), 'multi-lf'
    res = S.run_spec(sp)
    viol = []
    if res['failed_at'] is not None or res['write'] != 'ok':
        why = res['status'][-1] if res['failed_at'] is not None else res['write']
        viol.append((f"C07:{fam}:valid-rejected", f"{why} | {brief}"))
        return Outcome(f'{fam}:raised', viol, True)
    try:
        lfs = R.split_logical_files(R.parse_physical(res['data']))
        m = M.Model(S.flatten_shared_lists(sp))
        for i, (mlf, lf) in enumerate(zip(m.lfs, lfs)):
            errs = M.check_identity_and_refs(m, mlf, lf) + M.check_inventory(m, mlf, lf)
            errs += [(c, d) for c, d in M.check_attrs(m, mlf, lf) if c.split(':')[0] in REF_CODES]
            errs += [(c, d) for c, d in M.check_rows(m, mlf, lf) if c in ('fdata_unknown_frame', 'fdata_header')]
            if fam == 'across-sets':
                errs += M.check_noformat(m, mlf, lf) + M.check_rows(m, mlf, lf)
            for code, d in errs:
                viol.append((f"C07:{fam}:{code}", f"logical file {i}: {d[:250]} | {brief}"))
    except R.FormatError as e:
        viol.append((f"C07:{fam}:unparsable:{e.code}", f"{e} | {brief}"))
    return Outcome(f'ok:{fam}', viol, True, digest=sha(res['data']))
