"""C11 — all data sources are equivalent and the row window selects exactly its rows."""
from __future__ import annotations

import functools
import itertools
import json

from mc import spec as S, model as M, rp66 as R
from mc.engine import Outcome, sha
from mc.props.c03 import PAL

ID = 'C11'
ENGINE = 'E1 full product, differential against the inline write of the pre-sliced arrays'
RULE = ("full product of frame configuration (1..3 channels, scalar and 2-D, mixed dtypes, with and without index "
        "type; plus two frames with equally named channels in one or two CHANNEL sets) x rows x source kind {inline, dict, structured array, HDF5 with nested groups and bare/leading-slash "
        "names} x dataset-name mapping {identity, renamed} x source field order {as frame, reversed} x extra unused "
        "datasets x byte order of the source arrays x all windows 0<=from<to<=R plus open-ended x input chunk {None,1,2,R}; oracle: byte-identical to the "
        "inline write of the pre-sliced arrays and rows decode to exactly [from,to); non-trivial = both files written "
        "and compared")
ASSUMPTIONS = ["strict reader mc/rp66.py", "reference model mc/model.py", "reference configuration: inline data, "
               "identity names, no window, one chunk"]

FRAMES = {
    'D': [('P', 'float64', None), ('Q', 'float64', None)],       # two channels of one type (mapping may swap them)
    'A': [('CH-A', 'float64', None)],
    'B': [('DEPTH', 'float64', None), ('AMP', 'int16', 2)],
    'C': [('U8', 'uint8', None), ('F32', 'float32', 3), ('I32', 'int32', None)],
    # index channel with a LOSSY cast (float64 depths that float32 cannot hold exactly): the frame's index metadata
    # must come out the same whichever way the data are supplied
    'E': [('DEPTH', 'float64', None), ('VAL', 'int16', None)],
}
CASTS_OF = {'E': {'DEPTH': 'float32'}}
# the index channel of configuration B carries units (the frame takes its index units from them on every write)
UNITS_OF = {'B': {'DEPTH': 'm'}}
SRC = ['inline', 'dict', 'struct', 'h5', 'struct-padded']     # struct-padded: unused bytes inside every row of the source


def shards(tier):
    rows = [1, 3, 4] if tier == 'quick' else [1, 2, 3, 4, 5]
    return [{'frame': f, 'rows': r, 'src': s} for f in list(FRAMES) + ['S2', 'L2'] for r in rows for s in SRC]


def bounds(tier):
    return {'rows': [1, 3, 4] if tier == 'quick' else [1, 2, 3, 4, 5], 'windows': 'all 0<=from<to<=R and to=None'}


def cases(shard, tier):
    R_ = shard['rows']
    wins = [(f, t) for f in range(R_) for t in range(f + 1, R_ + 1)] + [(f, None) for f in range(R_)]
    chunks = sorted({None, 1, 2, R_}, key=lambda x: (x is not None, x))
    maps = ['identity', 'renamed'] + (['swapped'] if shard['frame'] == 'D' else [])
    if shard['frame'] == 'L2':
        # two logical files with one frame each: the row window and the input chunk size apply to both alike
        for (f, t), chunk, bo in itertools.product(wins, chunks, ['<', '>']):
            yield dict(shard, frm=f, to=t, chunk=chunk, mapping='identity', perm='same', extra=False, bo=bo, sets='per-frame')
        return
    if shard['frame'] == 'S2':
        # two frames with equally named channels, the second frame's channels in a CHANNEL set of their own: the data
        # sets are told apart by the documented NAME, NAME__1 rule across the whole logical file
        for (f, t), chunk, perm, bo, sets in itertools.product(wins, chunks, ['same', 'reversed'], ['<', '>'],
                                                               ['one', 'per-frame']):
            if shard['src'] == 'inline' and perm != 'same':
                continue
            yield dict(shard, frm=f, to=t, chunk=chunk, mapping='identity', perm=perm, extra=False, bo=bo, sets=sets)
        return
    for (f, t), chunk, mapping, perm, extra, bo in itertools.product(wins, chunks, maps,
                                                                     ['same', 'reversed'], [False, True, 'trailing'], ['<', '>']):
        if shard['src'] == 'inline' and (mapping != 'identity' or perm != 'same' or extra):
            continue
        yield dict(shard, frm=f, to=t, chunk=chunk, mapping=mapping, perm=perm, extra=extra, bo=bo)
        if shard['src'] == 'dict' and mapping == 'identity' and perm == 'same' and not extra and bo == '<':
            # the channels were created with placeholder arrays; the real data come with the dict given to write()
            yield dict(shard, frm=f, to=t, chunk=chunk, mapping=mapping, perm=perm, extra=extra, bo=bo, placeholder=True)
        if (f or t is not None) and chunk in (None, 2) and not extra and perm == 'same' and bo == '<':
            # the same objects were written before with the full window
            yield dict(shard, frm=f, to=t, chunk=chunk, mapping=mapping, perm=perm, extra=extra, bo=bo, earlier=True)


def _pats(frame, rows):
    out = []
    for i, (name, dt, w) in enumerate(FRAMES[frame]):
        n = rows * (w or 1)
        p = PAL[dt]
        if frame == 'E' and i == 0:
            import struct
            pat = [int.from_bytes(struct.pack('>d', 2500.1 + 0.1 * k), 'big') for k in range(rows)]
        elif i == 0 and dt == 'float64':
            pat = [0x4000000000000000 + (k << 48) for k in range(rows)]      # 2.0, 2.5.. increasing index-like values
        else:
            pat = [p[(3 * i + k) % len(p)] for k in range(n)]
        out.append((name, dt, w, pat))
    return out


def make_spec_s2(c, reference):
    rows, frm, to = c['rows'], c['frm'], c['to']
    hi = rows if to is None else to
    two_lf = c['frame'] == 'L2'
    ops = [S.op_lf(), S.op_origin()]
    if two_lf:
        ops += [{'op': 'lf', 'h': 'L1', 'kw': {'fh_id': 'SECOND-FILE', 'fh_sequence_number': 2}},
                S.op_origin('O1', 'ORIGIN-2', lf='L1', set_name='TOOL-B')]
    data = []
    for k in (0, 1):
        sn = {'set_name': 'TOOL-B'} if (k == 1 and c.get('sets') == 'per-frame') else {}
        if two_lf and k == 1:
            sn['lf'] = 'L1'
        refs = []
        for j, (name, dt) in enumerate((('DEPTH', 'float64'), ('RPM', 'uint16'))):
            pat = [0x4000000000000000 + ((8 * k + r) << 46) for r in range(rows)] if dt == 'float64' else \
                [1000 * (k + 1) + r for r in range(rows)]
            ds = name if k == 0 else f'{name}__1'
            ckw = dict(sn)
            if two_lf and k == 1:
                # the second logical file's channels read data sets of their own (explicit names), so that one source
                # can feed both files with different data
                ds = f'{name}-OF-FILE-2'
                ckw['dataset_name'] = ds
            hh = f'C{k}{j}'
            if reference:
                ops.append(S.op_add('channel', hh, name, data=S.arr_spec(dt, [hi - frm], pat[frm:hi]), **ckw))
            else:
                arr = S.arr_spec(dt, [rows], pat, bo=c.get('bo', '<'))
                ops.append(S.op_add('channel', hh, name, **dict(ckw, **({'data': arr} if c['src'] == 'inline' else {}))))
                data.append((ds, arr))
            refs.append({'$ref': hh})
        ops.append(S.op_add('frame', f'F{k}', f'FRAME{k + 1}', channels=refs, index_type='BOREHOLE-DEPTH',
                            **(sn if two_lf else {})))
    sp = {'sul': {'max_record_length': 8192}, 'ops': ops, 'write': {}}
    if reference:
        return sp
    if c['chunk'] is not None:
        sp['write']['input_chunk_size'] = c['chunk']
    if frm:
        sp['write']['from_idx'] = frm
    if to is not None:
        sp['write']['to_idx'] = to
    if c['perm'] == 'reversed':
        data = data[::-1]
    if c['src'] == 'dict':
        sp['write']['data'] = {'$datadict': dict(data)}
    elif c['src'] in ('struct', 'struct-padded'):
        sp['write']['data'] = {'$struct': {'fields': [[k, v] for k, v in data], 'padded': c['src'] == 'struct-padded'}}
    elif c['src'] == 'h5':
        sp['write']['data'] = {'$h5': {('/' + k): v for k, v in data}}
    return sp


def make_spec(c, reference=False):
    if c['frame'] in ('S2', 'L2'):
        return make_spec_s2(c, reference)
    rows = c['rows']
    frm, to = c['frm'], c['to']
    ops = [S.op_lf(), S.op_origin()]
    refs, data = [], []
    pats = _pats(c['frame'], rows)
    if reference and c.get('mapping') == 'swapped':
        # channel P is fed with what the source calls Q and vice versa: the reference gets the arrays crosswise
        pats = [(pats[0][0],) + pats[1][1:], (pats[1][0],) + pats[0][1:]]
    for i, (name, dt, w, pat) in enumerate(pats):
        per = w or 1
        if reference:
            hi = rows if to is None else to
            pat_r = pat[frm * per: hi * per]
            arr = S.arr_spec(dt, [hi - frm] if w is None else [hi - frm, w], pat_r)
            ckw = {'cast_dtype': {'$dtype': CASTS_OF[c['frame']][name]}} if name in CASTS_OF.get(c['frame'], {}) else {}
            if name in UNITS_OF.get(c['frame'], {}):
                ckw['units'] = UNITS_OF[c['frame']][name]
            ops.append(S.op_add('channel', f'C{i}', name, data=arr, **ckw))
        else:
            arr = S.arr_spec(dt, [rows] if w is None else [rows, w], pat, bo=c.get('bo', '<'))
            kw = {'cast_dtype': {'$dtype': CASTS_OF[c['frame']][name]}} if name in CASTS_OF.get(c['frame'], {}) else {}
            if name in UNITS_OF.get(c['frame'], {}):
                kw['units'] = UNITS_OF[c['frame']][name]
            ds = name
            if c['mapping'] == 'swapped':
                ds = {'P': 'Q', 'Q': 'P'}[name]          # channel P reads data set Q and vice versa
                kw['dataset_name'] = ds
            if c['mapping'] == 'renamed':
                ds = ('grp/sub/ds_' if c['src'] == 'h5' else 'ds_') + name
                if c['src'] == 'h5' and i % 2:
                    ds = '/' + ds
                kw['dataset_name'] = ds
            if c['src'] == 'inline':
                kw['data'] = arr
            elif c.get('placeholder'):
                kw['data'] = S.arr_spec(dt, [rows] if w is None else [rows, w], [0] * (rows * (w or 1)))
            # the source holds data set <name> with this channel's pattern; with the swapped mapping the channel reads
            # the OTHER data set (the reference gets the patterns crosswise)
            data.append((name if c['mapping'] == 'swapped' else ds, arr))
            ops.append(S.op_add('channel', f'C{i}', name, **kw))
        refs.append({'$ref': f'C{i}'})
    fkw = {'index_type': 'BOREHOLE-DEPTH'} if c['frame'] in ('B', 'E') else {}
    ops.append(S.op_add('frame', 'F0', 'FRAME', channels=refs, **fkw))
    sp = {'sul': {'max_record_length': 8192}, 'ops': ops, 'write': {}}
    if reference:
        return sp
    if c['chunk'] is not None:
        sp['write']['input_chunk_size'] = c['chunk']
    if frm:
        sp['write']['from_idx'] = frm
    if to is not None:
        sp['write']['to_idx'] = to
    if c['perm'] == 'reversed':
        data = data[::-1]
    if c['extra']:
        ex = ('UNUSED', S.arr_spec('float32', [rows], [0x3F800000] * rows))
        data = ([ex] if c['extra'] is True else []) + data + [('ZZ-UNUSED', S.arr_spec('uint8', [rows, 2], [7] * (2 * rows)))]
    if c['src'] == 'dict':
        sp['write']['data'] = {'$datadict': dict(data)}
    elif c['src'] in ('struct', 'struct-padded'):
        sp['write']['data'] = {'$struct': {'fields': [[k, v] for k, v in data], 'padded': c['src'] == 'struct-padded'}}
    elif c['src'] == 'h5':
        sp['write']['data'] = {'$h5': {('/' + k.lstrip('/')): v for k, v in data}}
    return sp


@functools.lru_cache(maxsize=256)
def _reference(key):
    c = json.loads(key)
    c.setdefault('mapping', 'plain')
    res = S.run_spec(make_spec(c, reference=True), fname='ref.dlis')
    return res['data'], res['write']


def _write_after_full(sp):
    import os
    from mc.engine import scratch_dir
    b = S.build(sp)
    res = {'status': b.status, 'failed_at': b.failed_at, 'write': 'skipped', 'data': None}
    if b.failed_at is not None:
        return res
    kw = S.write_kwargs(sp, b)
    p1 = os.path.join(scratch_dir(), 'c11-first.dlis')
    p2 = os.path.join(scratch_dir(), 'out.dlis')
    try:
        b.df.write(p1, **{k: v for k, v in kw.items() if k not in ('from_idx', 'to_idx')})
        b.df.write(p2, **kw)
        res['write'] = 'ok'
        res['data'] = open(p2, 'rb').read()
    except Exception as e:  # noqa
        res['write'] = f"raised:{type(e).__name__}: {e}"
    return res


def run_case(c):
    viol = []
    sp = make_spec(c)
    res = _write_after_full(sp) if c.get('earlier') else S.run_spec(sp)
    refkey = json.dumps({'frame': c['frame'], 'rows': c['rows'], 'frm': c['frm'], 'to': c['to'], 'sets': c.get('sets'),
                         'mapping': 'swapped' if c['mapping'] == 'swapped' else 'plain'}, sort_keys=True)
    ref, refst = _reference(refkey)
    # the struct spelling of the model needs dataset names without renaming prefix handled by resolve_data
    if ref is None:
        return Outcome('reference-failed', [("C11:reference-failed", f"{refst} | {c}")], False)
    if res['failed_at'] is not None or res['write'] != 'ok':
        why = res['status'][-1] if res['failed_at'] is not None else res['write']
        viol.append((f"C11:valid-rejected:{c['src']}", f"{why} | {c}"))
        return Outcome('raised', viol, True, digest=why[:40])
    if res['data'] != ref:
        cls = _classify(res['data'], ref, c) + (':swapped-mapping' if c['mapping'] == 'swapped' else '') + \
            (':after-full-write' if c.get('earlier') else '')
        viol.append((f"C11:differs:{c['src']}:{cls}", f"file differs from the inline write of rows "
                                                      f"[{c['frm']},{c['to']}) | {c}"))
    return Outcome(f"ok:{c['src']}:{'window' if (c['frm'] or c['to'] is not None) else 'all'}", viol, True,
                   digest=sha(res['data']))


def _classify(data, ref, c):
    try:
        a = R.parse_physical(data).records
        b = R.parse_physical(ref).records
    except R.FormatError as e:
        return 'unparsable'
    ia = [r.body for r in a if not r.is_eflr]
    ib = [r.body for r in b if not r.is_eflr]
    ea = [r.body for r in a if r.is_eflr]
    eb = [r.body for r in b if r.is_eflr]
    tags = []
    if len(ia) != len(ib):
        tags.append('row-count')
    elif ia != ib:
        tags.append('rows-from-wrong-window' if c['frm'] else 'row-bytes')
    if ea != eb:
        tags.append('metadata')
    return '+'.join(tags) or 'framing'
