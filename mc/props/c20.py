"""C20 — a rejected call leaves no trace in later files."""
from __future__ import annotations

import os

from mc import hist, spec as S
from mc.engine import Outcome, sha, scratch_dir

ID = 'C20'
ENGINE = 'E2 explicit-state BFS over histories of valid and rejected calls, differential oracle'
RULE = ("breadth-first search over histories mixing valid add_* events with rejected ones (wrong-type value, value "
        "outside an enumeration, reference of the wrong class, bad cast_dtype, non-string name, duplicate origin "
        "reference, rejected assignment to an existing object, for several object types; rejection before or after "
        "the object registered itself); a static family rejects one call of EVERY object kind (21) before the first / "
        "after one / twice / as the very first call on the logical file / as an assignment to an existing object, in default and named sets; a call on a second logical file refused because its set belongs to the first; oracle: the file equals byte for byte the file of the same history with the "
        "rejected events deleted, and every 'rejected' event really raised. Separate family: failing writes (missing "
        "dataset, bad window, unsupported dtype, 3-D data, too small chunk, directory target, failures inside the frame set-up; rejected setter calls and rejected add_channel with data as steps; after partial set-up "
        "from wrong-shaped data) followed by a repaired write, compared with a fresh specification; non-trivial = "
        "history containing at least one rejected event whose files were compared")
ASSUMPTIONS = ["differential oracle: no hand-written expectation", "completion suffix (origin/channel/frame added "
               "last) as in C07"]
MIN_DISTINCT_OUTCOMES = 2

VALID = ['O', 'O5', 'AX', 'ZN', 'CH', 'FR', 'PA']     # O5: an origin with the explicit reference 5
REJECT = ['R:zone-type', 'R:zone-enum', 'R:zone-name', 'R:axis-type', 'R:param-ref', 'R:chan-cast', 'R:chan-type',
          'R:frame-type', 'R:origin-dup', 'R:set-value', 'R:set-units', 'R:tool-status',
          # rejections raised as RuntimeError (units for an attribute that cannot carry units), through both routes
          'R:zone-units', 'R:chan-units', 'R:chan-cast-data']


def depth(tier):
    return 4 if tier == 'quick' else 6


def bounds(tier):
    return {'depth': depth(tier), 'valid_events': VALID, 'rejected_events': REJECT, 'max_rejected_per_history': 2}


def initial_key():
    return '[]'


def enabled_events(h, tier):
    valid = [e for e in h if not e.startswith('R:')]
    out = [e for e in hist.enabled_events(valid, 'quick') if e in VALID]
    nrej = len(h) - len(valid)
    if nrej < 2:
        for r in REJECT:
            if r == 'R:origin-dup' and 'O' not in valid and 'O5' not in valid:
                continue
            if r in ('R:set-value', 'R:set-units') and 'ZN' not in valid:
                continue
            if r == 'R:param-ref' and 'CH' not in valid:
                continue
            if r == 'R:frame-type' and 'CH' not in valid:
                continue
            out.append(r)
    return out


def rejected_op(r, handles):
    """The op of a rejected event, given the handles that exist at that point: kind -> [handles]."""
    def last(kind):
        return {'$ref': handles[kind][-1]}
    if r == 'R:zone-type':
        return S.op_add('zone', 'RJ', 'X', expect='raise', description=5)
    if r == 'R:zone-enum':
        return S.op_add('zone', 'RJ', 'X', expect='raise', domain='NOT-A-DOMAIN')
    if r == 'R:zone-name':
        return S.op_add('zone', 'RJ', 5, expect='raise')
    if r == 'R:axis-type':
        return S.op_add('axis', 'RJ', 'X', expect='raise', spacing='wide')
    if r == 'R:param-ref':
        return S.op_add('parameter', 'RJ', 'X', expect='raise', zones=[last('channel')])
    if r == 'R:chan-cast':
        return S.op_add('channel', 'RJ', 'X', expect='raise', cast_dtype={'$dtype': 'int64'})
    if r == 'R:chan-cast-data':
        return S.op_add('channel', 'RJ', 'X', expect='raise', cast_dtype={'$dtype': 'int64'},
                        data=S.arr_spec('float32', [2], [0x447A0000, 0x447A0000]))
    if r == 'R:chan-type':
        return S.op_add('channel', 'RJ', 'X', expect='raise', minimum_value='low')
    if r == 'R:frame-type':
        return S.op_add('frame', 'RJ', 'X', expect='raise', channels=[last('channel')], encrypted='perhaps')
    if r == 'R:origin-dup':
        return S.op_add('origin', 'RJ', 'X', expect='raise', origin_reference=77, file_set_number=1,
                        creation_time=S.FIXED_ORIGIN_KW['creation_time'])
    if r == 'R:set-value':
        return {'op': 'set', 'h': handles['zone'][-1], 'attr': 'domain', 'part': 'value', 'value': 'BAD-DOMAIN',
                'expect': 'raise'}
    if r == 'R:set-units':
        return {'op': 'set', 'h': handles['zone'][-1], 'attr': 'description', 'part': 'units', 'value': 'm',
                'expect': 'raise'}
    if r == 'R:zone-units':
        return S.op_add('zone', 'RJ', 'X', expect='raise', description={'$as': {'value': 'some text', 'units': 'm'}})
    if r == 'R:chan-units':
        return S.op_add('channel', 'RJ', 'X', expect='raise', dimension={'$dict': {'value': [1], 'units': 'm'}})
    if r == 'R:tool-status':
        return S.op_add('tool', 'RJ', 'X', expect='raise', status=2)
    raise ValueError(r)


def to_specs(h):
    """(spec with rejected events, spec without them). Rejected ops are spliced in at their history position."""
    valid = [e for e in h if not e.startswith('R:')]
    clean = hist.to_spec(valid)
    # positions: replay the valid prefix lengths
    ops_full = None
    # build incrementally: for each prefix of h compute the op list of its valid part (without completion)
    out_ops = [clean['ops'][0]]
    n_valid = 0
    prev_len = 1
    dup_needed = False
    for e in h:
        if e.startswith('R:'):
            part = hist.to_spec(valid[:n_valid], complete=False)['ops']
            handles: dict = {}
            for op in part:
                if op['op'] == 'add':
                    handles.setdefault(op['kind'], []).append(op['h'])
            rop = rejected_op(e, handles)
            if e == 'R:origin-dup':
                # the duplicate reference is the one of the first existing origin
                rop['kw']['origin_reference'] = 'FIRST'
            out_ops.append(rop)
        else:
            n_valid += 1
            part = hist.to_spec(valid[:n_valid], complete=False)['ops']
            out_ops.extend(part[prev_len:])
            prev_len = len(part)
    out_ops.extend(clean['ops'][prev_len:])      # completion suffix
    full = dict(clean, ops=out_ops)
    return full, clean


def _run(sp):
    """Build with rejected ops allowed to fail; returns (status list, bytes | error string)."""
    from dliswriter import DLISFile
    b = S.Built()
    b.df = DLISFile(**(sp.get('sul') or {}))
    notes = []
    for op in sp['ops']:
        if op.get('kw', {}).get('origin_reference') == 'FIRST':
            origins = [o for o in b.objs.values() if type(o).__name__ == 'OriginItem']
            # the reference of an existing origin (one that can be requested explicitly, i.e. not 0, if there is one)
            first = next((o for o in origins if o.origin_reference), origins[0])
            op = dict(op, kw=dict(op['kw'], origin_reference=first.origin_reference or 999999))
            if not first.origin_reference:
                # origin reference 0 cannot be requested explicitly (0 means "choose"): use an unsatisfiable type
                op['kw']['origin_reference'] = 'not-an-int'
        st = S.apply_op(b, op)
        want = op.get('expect', 'ok')
        if want == 'raise' and st == 'ok':
            notes.append(f"not-rejected:{op.get('kind') or op['op']}")
        if want == 'ok' and st != 'ok':
            return notes, f"valid-op-{st}"
    path = os.path.join(scratch_dir(), 'c20.dlis')
    if os.path.exists(path):
        os.remove(path)
    try:
        b.df.write(path, output_chunk_size=2 ** 16)
    except Exception as e:  # noqa
        return notes, f"write-raised:{type(e).__name__}: {e}"
    return notes, open(path, 'rb').read()


def check_state(h):
    rej = [e for e in h if e.startswith('R:')]
    if not rej:
        return Outcome('no-rejected-event', [], False)
    full, clean = to_specs(h)
    notes, got = _run(full)
    _, want = _run(clean)
    viol = []
    for n in notes:
        viol.append((f"C20:{n}", f"an event designed to be rejected was accepted | history={h}"))
    if isinstance(want, str):
        return Outcome('clean-history-failed', [("C20:harness:clean-history-failed", f"{want} | {h}")], False)
    if notes:
        return Outcome('not-rejected', viol, True)
    if isinstance(got, str):
        viol.append((f"C20:later-write-fails:{'+'.join(sorted(set(rej)))}", f"{got} | history={h}"))
        return Outcome('write-fails-after-rejection', viol, True, digest=got[:40])
    if got != want:
        cls = _classify(got, want)
        viol.append((f"C20:trace:{cls}" + ('' if cls == 'set-order' else ':' + '+'.join(sorted(set(rej)))),
                     f"file differs from the history without the rejected calls | history={h}"))
    return Outcome('ok:' + '+'.join(sorted(set(r.split('-')[0] for r in rej))), viol, True, digest=sha(got))


def _classify(got, want):
    from mc import rp66 as R
    try:
        ra, rb = R.parse_physical(got).records, R.parse_physical(want).records
        a = [R.parse_eflr(r.body) for r in ra if r.is_eflr]
        b = [R.parse_eflr(r.body) for r in rb if r.is_eflr]
    except R.FormatError as e:
        return 'unparsable'
    # 'set-order' is only the same records in another order: every set byte-identical, the data records unchanged
    same_records = (sorted(r.body for r in ra if r.is_eflr) == sorted(r.body for r in rb if r.is_eflr)
                    and [r.body for r in ra if not r.is_eflr] == [r.body for r in rb if not r.is_eflr])
    na = sum(len(s.objects) for s in a)
    nb = sum(len(s.objects) for s in b)
    if na != nb:
        return 'phantom-object'
    if sorted((s.type, s.name or '') for s in a) == sorted((s.type, s.name or '') for s in b) and \
            [(s.type, s.name) for s in a] != [(s.type, s.name) for s in b] and same_records:
        return 'set-order'
    return 'content'


def step(h, tier):
    import json
    return json.dumps(h), check_state(h)


# ---------------------------------------------------------------------------------------------------------------------
# failing writes followed by a repaired write
# ---------------------------------------------------------------------------------------------------------------------
FAILS = ['missing', 'missing-after-wrong-shape', 'wrong-dtype', 'wrong-dtype-second', '3d', 'bad-window', 'small-chunk',
         'dir-target', 'bad-data-type', 'empty-dict', 'small-chunk-other-shape',
         # the write fails inside the frame's set-up from its index data, after a part of it was done
         'index-2d', 'index-nonuniform-in-hc-mode',
         # the write fails while the bytes of a set are being made (checks run per object, after earlier objects of
         # the same set were converted); the cause is then removed through the public setters
         'eflr-param-values', 'eflr-zone-domain', 'eflr-chan-element-limit',
         # not a write: an add_channel call that carries data and is rejected (its array must not stay behind)
         'rejected-add-channel-with-data', 'rejected-add-channel-with-data-same-name',
         # not a write: an assignment through a public setter that is rejected (between writes it must not disturb what
         # the next write derives from its data)
         'rejected-assign-cast', 'rejected-assign-dimension', 'rejected-assign-frame-attr']
# successful earlier writes (they must leave no trace in the next write either: e.g. a remembered data dict)
OKS = ['ok-dict', 'ok-dict-extra-key', 'ok-struct', 'ok-window']
FINALS = ['dict', 'struct', 'h5', 'dict-missing-key', 'dict-other-dtype']


# one rejected call per object kind: (bad keyword arguments, valid keyword arguments of the call that follows)
KIND_REJECT = {
    'axis': ({'spacing': 'wide'}, {}),
    'calibration': ({'calibrated_channels': [{'$ref': 'Z'}]}, {}),
    'calibration_coefficient': ({'coefficients': ['a']}, {}),
    'calibration_measurement': ({'phase': 'NOT-A-PHASE'}, {}),
    'channel': ({'minimum_value': 'low'}, {}),
    'comment': ({'text': 5}, {}),
    'computation': ({'values': 'abc'}, {}),
    'equipment': ({'status': 2}, {}),
    'frame': ({'channels': [{'$ref': 'C2'}], 'encrypted': 'perhaps'}, {'channels': [{'$ref': 'C2'}]}),
    'group': ({'group_list': [{'$ref': 'C'}]}, {}),
    'long_name': ({'quantity': 5}, {}),
    'message': ({'text': 5}, {}),
    'no_format': ({'description': 5}, {}),
    'origin': ({'well_id': 5, 'file_set_number': 3, 'creation_time': S.FIXED_ORIGIN_KW['creation_time']},
               {'file_set_number': 3, 'creation_time': S.FIXED_ORIGIN_KW['creation_time']}),
    'parameter': ({'zones': [{'$ref': 'C'}]}, {}),
    'path': ({'frame_type': {'$ref': 'C'}}, {}),
    'process': ({'status': 'NOT-A-STATUS'}, {}),
    'splice': ({'output_channel': {'$ref': 'Z'}}, {}),
    'tool': ({'status': 2}, {}),
    'well_reference_point': ({'permanent_datum': 5}, {}),
    'zone': ({'description': 5}, {}),
}


# further rejected calls per kind, refused at other places of the add_* methods (before the set is looked up, while the
# frame's channels are checked, by the name / reference checks of the item)
KIND_REJECT_MORE = {
    'channel': [{'data': [1, 2, 3]}, {'cast_dtype': 'not-a-dtype'}, {'dimension': [0.5]}, {'origin_reference': 'five'}],
    'frame': [{'channels': {'$ref': 'C2'}}, {'channels': [{'$ref': 'Z'}]}, {'channels': []},
              {'channels': [{'$ref': 'C2'}], 'index_type': 5}, {'channels': [{'$ref': 'C2'}], 'spacing': 'wide'}],
    'zone': [{'maximum': [1, 2]}, {'origin_reference': 'five'}, {'domain': 5}],
    'parameter': [{'values': [1, None]}, {'dimension': 'wide'}, {'zones': {'$ref': 'C'}}],
    'axis': [{'coordinates': [1, None]}, {'axis_id': 5}],
    'tool': [{'channels': [{'$ref': 'Z'}]}, {'parts': [{'$ref': 'C'}]}],
    'origin': [{'creation_time': 'not a date', 'file_set_number': 3}, {'file_set_number': 'three',
                                                                       'creation_time': S.FIXED_ORIGIN_KW['creation_time']},
               {'file_number': 1.5, 'file_set_number': 3, 'creation_time': S.FIXED_ORIGIN_KW['creation_time']}],
}


def shards(tier):
    return [{'fw': f} for f in FAILS + OKS] + [{'kinds': True}, {'shared': True}]


def cases(shard, tier):
    if shard.get('shared'):
        # a call on a second logical file that is refused because its set belongs to the first logical file
        for k in KIND_REJECT:
            for when in ('first-call', 'after-origin', 'last-but-one'):
                yield {'sharedrej': k, 'when': when}
        return
    if shard.get('kinds'):
        for k in KIND_REJECT:
            for where in ('before-first', 'after-one', 'twice', 'first-of-all', 'rejected-assignment'):
                if where == 'first-of-all' and '$ref' in str(KIND_REJECT[k][0]):
                    continue        # the rejected call is the very first call on the logical file: nothing to refer to
                for named in (False, True):
                    yield {'kindrej': k, 'where': where, 'named': named}
                    if where != 'rejected-assignment':
                        for alt in range(len(KIND_REJECT_MORE.get(k, []))):
                            if where == 'first-of-all' and '$ref' in str(KIND_REJECT_MORE[k][alt]):
                                continue
                            yield {'kindrej': k, 'where': where, 'named': named, 'alt': alt}
        # the logical file's FIRST add_origin call is refused after objects of other kinds exist; then an origin is added
        for named in (False, True):
            yield {'kindrej': 'origin', 'where': 'no-origin-yet', 'named': named}
            # ... and the origin that is accepted afterwards gets another reference than the refused one would have got
            yield {'kindrej': 'origin', 'where': 'no-origin-yet', 'named': named, 'retry_ref': 3}
            # an add_origin refused because its reference is taken - naming the set of the existing origins, a new set,
            # or a set that later origins go into ({directly, after an origin in yet another new set})
            for rejset in ('same', 'NEWSET'):
                for then in ('same', 'NEWSET', 'OTHER+NEWSET', 'NEWSET+OTHER'):
                    yield {'kindrej': 'origin', 'where': 'dup-ref', 'named': named, 'rejset': rejset, 'then': then}
        return
    for final in FINALS:
        yield {'fw': [shard['fw']], 'final': final}
        for g in FAILS + OKS:
            yield {'fw': [shard['fw'], g], 'final': final}
        if tier != 'quick':
            for g in FAILS + OKS:
                for k in FAILS + OKS:
                    yield {'fw': [shard['fw'], g, k], 'final': final}


def _fw_spec():
    return {'sul': {'max_record_length': 8192},
            'ops': [S.op_lf(), S.op_origin(), S.op_add('channel', 'CA', 'A'), S.op_add('channel', 'CB', 'B'),
                    S.op_add('frame', 'F', 'FRAME', channels=[{'$ref': 'CA'}, {'$ref': 'CB'}], index_type='BOREHOLE-DEPTH'),
                    S.op_add('zone', 'Z1', 'ZONE-1', domain='BOREHOLE-DEPTH', maximum=10.0, minimum=1.0),
                    S.op_add('zone', 'Z2', 'ZONE-2', domain='BOREHOLE-DEPTH', maximum=20.0, minimum=2.0),
                    S.op_add('zone', 'Z3', 'ZONE-3'),
                    S.op_add('parameter', 'P1', 'PARAM-1', values=[1.5]),
                    S.op_add('parameter', 'P2', 'PARAM-2', values=[2.5]),
                    S.op_add('parameter', 'P3', 'PARAM-3', values=[3.5]),
                    S.op_add('channel', 'CX', 'LONELY-1'),
                    S.op_add('channel', 'CY', 'LONELY-2', dimension=[3], element_limit=[3])]}


# object-level breakage applied before the failing write and undone after it: (break ops, repair ops)
EFLR_BREAK = {
    'eflr-param-values': ([{'op': 'set', 'h': 'P2', 'attr': 'values', 'part': 'value', 'value': [2.5, 9.0]}],
                          [{'op': 'set', 'h': 'P2', 'attr': 'values', 'part': 'value', 'value': [2.5]}]),
    'eflr-zone-domain': ([{'op': 'set', 'h': 'Z2', 'attr': 'maximum', 'part': 'value',
                           'value': {'$dt': [2020, 1, 1, 0, 0, 0, 0], 'tz': 0}}],
                         [{'op': 'set', 'h': 'Z2', 'attr': 'maximum', 'part': 'value', 'value': 20.0}]),
    'eflr-chan-element-limit': ([{'op': 'set', 'h': 'CY', 'attr': 'element_limit', 'part': 'value', 'value': [2]}],
                                [{'op': 'set', 'h': 'CY', 'attr': 'element_limit', 'part': 'value', 'value': [3]}]),
}


def _good():
    return {'A': S.make_array(S.arr_spec('float64', [3], [0x3FF0000000000000, 0x4000000000000000, 0x4008000000000000])),
            'B': S.make_array(S.arr_spec('uint16', [3, 2], [1, 2, 3, 4, 5, 6]))}


def _failing_kwargs(kind, path):
    import numpy as np
    g = _good()
    kw = {'output_chunk_size': 2 ** 16, 'data': g}
    if kind == 'missing':
        kw['data'] = {'A': g['A']}
    elif kind == 'missing-after-wrong-shape':
        kw['data'] = {'A': np.arange(6, dtype=np.float32).reshape(3, 2)}
    elif kind == 'wrong-dtype':
        kw['data'] = {'A': np.arange(3, dtype=np.int64), 'B': g['B']}
    elif kind == 'wrong-dtype-second':
        kw['data'] = {'A': np.arange(3, dtype=np.float32) * 5, 'B': np.arange(6, dtype=np.int64).reshape(3, 2)}
    elif kind == '3d':
        kw['data'] = {'A': g['A'], 'B': np.zeros((3, 2, 2), dtype=np.uint16)}
    elif kind == 'bad-window':
        kw['from_idx'] = 99
    elif kind == 'index-2d':
        kw['data'] = {'A': np.arange(9000, 9006, dtype=np.float64).reshape(3, 2), 'B': g['B']}
    elif kind == 'index-nonuniform-in-hc-mode':
        kw['data'] = {'A': np.array([7001.0, 7002.0, 7024.0]), 'B': g['B']}
    elif kind == 'small-chunk':
        kw['output_chunk_size'] = 4
    elif kind == 'small-chunk-other-shape':
        kw['output_chunk_size'] = 4
        kw['data'] = {'A': g['A'], 'B': np.arange(12, dtype=np.float32).reshape(3, 4)}
    elif kind == 'bad-data-type':
        kw['data'] = 5
    elif kind == 'empty-dict':
        kw['data'] = {}
    elif kind == 'ok-dict-extra-key':
        kw['data'] = dict(g, EXTRA=np.arange(3, dtype=np.float32))
    elif kind == 'ok-struct':
        kw['data'] = _struct(g)
    elif kind == 'ok-window':
        kw['from_idx'], kw['to_idx'] = 1, 2
    return kw


def _struct(g):
    import numpy as np
    out = np.zeros(3, dtype=[('A', g['A'].dtype), ('B', g['B'].dtype, (2,))])
    out['A'], out['B'] = g['A'], g['B']
    return out


def _final_kwargs(final):
    g = _good()
    if final == 'dict':
        return {'data': g}, True
    if final == 'struct':
        return {'data': _struct(g)}, True
    if final == 'h5':
        import h5py
        p = os.path.join(scratch_dir(), 'c20src.h5')
        if os.path.exists(p):
            os.remove(p)
        with h5py.File(p, 'w') as f:
            f.create_dataset('/A', data=g['A'])
            f.create_dataset('/B', data=g['B'])
        return {'data': p}, True
    if final == 'dict-other-dtype':
        return {'data': {'A': g['A'].astype('float32'), 'B': S.make_array(S.arr_spec('uint8', [3, 3], list(range(9))))}}, True
    if final == 'dict-missing-key':
        return {'data': {'A': g['A']}}, False        # must raise: data set B is nowhere to be found
    raise ValueError(final)


def kind_specs(c):
    k = c['kindrej']
    bad, good = KIND_REJECT[k]
    if c.get('alt') is not None:
        bad = KIND_REJECT_MORE[k][c['alt']]
        if k == 'origin':
            good = dict(good)
    sn = {'set_name': 'NAMED'} if c['named'] else {}
    base = [S.op_lf(), S.op_origin(),
            S.op_add('channel', 'C', 'CHAN', data=S.arr_spec('uint8', [2], [1, 2])),
            S.op_add('channel', 'C2', 'CHAN2', data=S.arr_spec('uint8', [2], [3, 4])),
            S.op_add('frame', 'F', 'FRAME', channels=[{'$ref': 'C'}]), S.op_add('zone', 'Z', 'ZONE')]
    if k != 'frame':
        base.append(S.op_add('frame', 'F2', 'FRAME2', channels=[{'$ref': 'C2'}]))
    rej = S.op_add(k, 'RJ', 'X', expect='raise', **dict(bad, **sn))
    ok1 = S.op_add(k, 'OK1', 'X', **dict(good, **sn))
    ok2 = S.op_add(k, 'OK2', 'Y', **dict(good, **sn)) if k != 'frame' else None
    if c['where'] == 'rejected-assignment':
        # the object exists; the bad value is assigned through the public setter and must be refused without a trace
        from mc.schema import attr_by_kw
        key = 'encrypted' if k == 'frame' else next(iter(bad))
        setop = {'op': 'set', 'h': 'OK1', 'attr': attr_by_kw(k, key).attr, 'part': 'value', 'value': bad[key],
                 'expect': 'raise'}
        full, clean = [ok1, setop] + ([ok2] if ok2 else []), [ok1] + ([ok2] if ok2 else [])
    elif c['where'] == 'before-first':
        full, clean = [rej, ok1], [ok1]
    elif c['where'] == 'after-one':
        full, clean = [ok1, rej] + ([ok2] if ok2 else []), [ok1] + ([ok2] if ok2 else [])
    else:
        full, clean = [rej, dict(rej, h='RJ2'), ok1], [ok1]
    mk = lambda ops: {'sul': {'max_record_length': 8192}, 'ops': base + ops, 'write': {}}
    if c['where'] == 'dup-ref':
        okw = dict(good)
        nm = lambda x: {} if (x == 'same' and not c['named']) else {'set_name': 'NAMED' if x == 'same' else x}
        oa = S.op_add(k, 'OA', 'ORIGIN-5', **dict(okw, origin_reference=5, **nm('same')))
        rj = S.op_add(k, 'RJ', 'X', expect='raise', **dict(okw, origin_reference=5, **nm(c['rejset'])))
        later = [S.op_add(k, f'OL{i}', f'LATER-{i}', **dict(okw, **nm(x))) for i, x in enumerate(c['then'].split('+'))]
        return ({'sul': {'max_record_length': 8192}, 'ops': base[:2] + [oa, rj] + later + base[2:], 'write': {}},
                {'sul': {'max_record_length': 8192}, 'ops': base[:2] + [oa] + later + base[2:], 'write': {}})
    if c['where'] == 'no-origin-yet':
        if c.get('retry_ref'):
            ok1 = S.op_add(k, 'OK1', 'X', **dict(good, origin_reference=c['retry_ref'], **sn))
        late = [ok1, S.op_add('zone', 'ZL', 'ZONE-ADDED-LAST')]
        return ({'sul': {'max_record_length': 8192}, 'ops': base[:1] + base[2:] + [rej] + late, 'write': {}},
                {'sul': {'max_record_length': 8192}, 'ops': base[:1] + base[2:] + late, 'write': {}})
    if c['where'] == 'first-of-all':
        # rejected before anything else exists (also before the first origin); objects of the kind are added at the end
        # (right after the origin if they need nothing else, so that everything else is created after them)
        tail = base[2:] + [ok1] if '$ref' in str(good) else [ok1] + base[2:]
        return ({'sul': {'max_record_length': 8192}, 'ops': base[:1] + [rej] + base[1:2] + tail, 'write': {}},
                {'sul': {'max_record_length': 8192}, 'ops': base[:2] + tail, 'write': {}})
    return mk(full), mk(clean)


def shared_specs(c):
    import json
    k = c['sharedrej']
    _, good = KIND_REJECT[k]
    A = [S.op_lf(), S.op_origin(),
         S.op_add('channel', 'C', 'CHAN', data=S.arr_spec('uint8', [2], [1, 2])),
         S.op_add('channel', 'C2', 'CHAN2', data=S.arr_spec('uint8', [2], [3, 4])),
         S.op_add('frame', 'F', 'FRAME', channels=[{'$ref': 'C'}]), S.op_add('zone', 'Z', 'ZONE')]
    if k != 'frame':
        A.append(S.op_add('frame', 'F2', 'FRAME2', channels=[{'$ref': 'C2'}]))
    A.append(S.op_add(k, 'AX', 'X', **good))                      # the first logical file owns the unnamed set of the kind
    lfb = {'op': 'lf', 'h': 'L1', 'kw': {'fh_id': 'SECOND', 'fh_sequence_number': 2}}
    rej = S.op_add(k, 'RJ', 'X', lf='L1', expect='raise', **good)    # same (unnamed) set from the second logical file
    sn = {'set_name': 'S2'}
    B = [S.op_origin('OB', 'ORIGIN-B', lf='L1', **sn),
         S.op_add('channel', 'CB', 'CHAN', lf='L1', data=S.arr_spec('uint8', [3], [5, 6, 7]), **sn),
         S.op_add('channel', 'CB2', 'CHAN2', lf='L1', data=S.arr_spec('uint8', [3], [7, 8, 9]), **sn),
         S.op_add('frame', 'FB', 'FRAME', lf='L1', channels=[{'$ref': 'CB'}], **sn)]
    if k != 'frame':
        B.append(S.op_add('frame', 'FB2', 'FRAME2', lf='L1', channels=[{'$ref': 'CB2'}], **sn))
    goodb = json.loads(json.dumps(good).replace('"C2"', '"CB2"'))
    bx = S.op_add(k, 'BX', 'X', lf='L1', set_name='K2', **goodb)
    pos = {'first-call': 0, 'after-origin': 1, 'last-but-one': len(B)}[c['when']]
    mk = lambda b: {'sul': {'max_record_length': 8192}, 'ops': A + [lfb] + b + [bx], 'write': {}}
    return mk(B[:pos] + [rej] + B[pos:]), mk(B)


def run_case(case):
    if 'sharedrej' in case:
        full, clean = shared_specs(case)
        notes, got = _run(full)
        _, want = _run(clean)
        if isinstance(want, str):
            return Outcome('harness', [("C20:harness:clean-shared-spec-failed", f"{want} | {case}")], False)
        viol = [(f"C20:shared:{n}", f"{case}") for n in notes]
        if notes:
            return Outcome('not-rejected', viol, True)
        if isinstance(got, str):
            viol.append((f"C20:later-write-fails:shared:{case['sharedrej']}", f"{got} | {case}"))
        elif got != want:
            viol.append((f"C20:trace:{_classify(got, want)}:refused-shared-set",
                         f"file differs from the history without the refused {case['sharedrej']} call on the second "
                         f"logical file | {case}"))
        return Outcome(f"ok:shared:{case['when']}", viol, True, digest=sha(got) if not isinstance(got, str) else got[:30])
    if 'kindrej' in case:
        full, clean = kind_specs(case)
        notes, got = _run(full)
        _, want = _run(clean)
        viol = [(f"C20:{n}", f"{case}") for n in notes]
        if isinstance(want, str):
            return Outcome('harness', [("C20:harness:clean-kind-spec-failed", f"{want} | {case}")], False)
        if notes:
            return Outcome('not-rejected', viol, True)
        if isinstance(got, str):
            viol.append((f"C20:later-write-fails:kind:{case['kindrej']}", f"{got} | {case}"))
        elif got != want:
            cls = _classify(got, want)
            viol.append((f"C20:trace:{cls}" + ('' if cls == 'set-order' else f":kind:{case['kindrej']}"),
                         f"file differs from the history without the rejected {case['kindrej']} call | {case}"))
        return Outcome(f"ok:kind:{case['where']}", viol, True, digest=sha(got) if not isinstance(got, str) else got[:30])
    if 'history' in case:
        return check_state(case['history'])
    viol = []
    path = os.path.join(scratch_dir(), 'c20fw.dlis')
    dpath = os.path.join(scratch_dir(), 'c20dir.dlis')

    final = case.get('final', 'dict')

    def good_write(b):
        if os.path.exists(path):
            os.remove(path)
        fkw, _ = _final_kwargs(final)
        try:
            b.df.write(path, output_chunk_size=2 ** 16, **fkw)
        except Exception as e:  # noqa
            return f"raised:{type(e).__name__}: {e}"
        return open(path, 'rb').read()

    fresh = S.build(_fw_spec())
    want = good_write(fresh)
    final_ok = _final_kwargs(final)[1]
    if isinstance(want, str) == final_ok:
        return Outcome('harness', [("C20:harness:fresh-final-write-unexpected", str(want)[:200])], False)
    b = S.build(_fw_spec())
    for kind in case['fw']:
        if kind.startswith('rejected-add-channel'):
            nm = 'B' if kind.endswith('same-name') else 'NEVER-ADDED'
            st = S.apply_op(b, S.op_add('channel', 'RJ', nm, expect='raise', minimum_value='low',
                                        data=S.arr_spec('uint16', [3, 2], [9, 9, 9, 9, 9, 9])))
            if st == 'ok':
                viol.append((f"C20:not-rejected:channel", f"{case}"))
            continue
        if kind.startswith('rejected-assign'):
            import numpy as np
            try:
                if kind.endswith('cast'):
                    b.objs['CA'].cast_dtype = np.int64
                elif kind.endswith('dimension'):
                    b.objs['CB'].dimension.value = ['wide']
                else:
                    b.objs['F'].spacing.value = 'narrow'
                viol.append((f"C20:not-rejected:{kind}", f"{case}"))
            except Exception:  # noqa
                pass
            continue
        kw = _failing_kwargs(kind, path)
        target = path
        for op in EFLR_BREAK.get(kind, ([], []))[0]:
            st = S.apply_op(b, op)
            if st != 'ok':
                return Outcome('harness', [("C20:harness:break-op-failed", f"{st} | {case}")], False)
        if kind == 'dir-target':
            os.makedirs(dpath, exist_ok=True)
            target = dpath
        try:
            if kind.endswith('in-hc-mode'):
                from dliswriter import high_compatibility_mode
                with high_compatibility_mode():
                    b.df.write(target, **kw)
            else:
                b.df.write(target, **kw)
            if not kind.startswith('ok-'):
                viol.append((f"C20:failing-write-accepted:{kind}", f"a write designed to fail returned normally | {case}"))
        except Exception as e:  # noqa
            if kind.startswith('ok-'):
                viol.append((f"C20:valid-write-raised:{kind}", f"{type(e).__name__}: {e} | {case}"))
        finally:
            if os.path.isdir(dpath):
                os.rmdir(dpath)
            for op in EFLR_BREAK.get(kind, ([], []))[1]:
                S.apply_op(b, op)
    got = good_write(b)
    if not final_ok:
        # the final write must fail here exactly as it does on a fresh specification
        if not isinstance(got, str):
            viol.append((f"C20:earlier-write-leaks-data:{final}", f"after {case['fw']} a write that a fresh specification "
                                                                  f"rejects ({str(want)[:80]}) succeeded | {case}"))
        return Outcome('final-rejected' if isinstance(got, str) else 'final-accepted', viol, True, digest=str(got)[:30])
    if isinstance(got, str):
        viol.append((f"C20:repaired-write-fails:{case['fw'][-1] if len(case['fw']) == 1 else '+'.join(case['fw'])}",
                     f"{got} | {case}"))
        return Outcome('repaired-write-fails', viol, True, digest=got[:40])
    if got != want:
        viol.append((f"C20:repaired-write-differs:{_classify(got, want)}:{'+'.join(sorted(set(case['fw'])))}",
                     f"after the failed write(s) the repaired write differs from a fresh specification | {case}"))
    return Outcome('ok:failing-writes', viol, True, digest=sha(got))
