"""C18 — frames and logical files are isolated from one another."""
from __future__ import annotations

import itertools

from mc import spec as S, model as M, rp66 as R
from mc.engine import Outcome, sha

ID = 'C18'
ENGINE = 'E2-style exhaustive interleaving of per-logical-file add_* sequences + E1 product of frame layouts'
RULE = ("logical files: 2..3 logical files, each with one of seven add_* sequences (two contain a rejected call, before / after an accepted one of the same set),  (origin first / last / explicit "
        "reference, with and without a zone and a parameter referring to it), ALL interleavings of the sequences, x "
        "set-name assignment {distinct per logical file, all default, partially shared (only ZONE default)} x header sequence numbers {ascending, descending, equal, rotated} x data "
        "passed to write() {none, unrelated array, array overriding the equally named data set of every file}; a "
        "configuration that shares a set between logical files must raise, every other one is written and each "
        "logical file is compared with the model (inventory, identities, origins, references, rows, header order). "
        "a row window applied to all files; frames: 1..3 frames with different row counts, partly equal channel names, channels in one or per-frame CHANNEL sets, row windows and input chunks, data inline or passed to write (dict, HDF5, one structured array for all frames); "
        "non-trivial = case whose outcome was compared with the model")
ASSUMPTIONS = ["strict reader mc/rp66.py", "reference model mc/model.py", "a shared-set configuration may be rejected at "
               "add_* or at write"]

TEMPLATES = {
    'T1': ['O', 'CH', 'FR'],
    'T2': ['CH', 'FR', 'O'],
    'T3': ['O', 'ZN', 'PA', 'NF', 'CH', 'FR'],
    'T4': ['CH', 'ZN', 'O5', 'FR'],
    'T5': ['O', 'RZ', 'CH', 'FR', 'ZN'],      # RZ = an add_zone call that is rejected (wrong-type value)
    'T6': ['O', 'ZN', 'RZ', 'CH', 'FR'],      # the rejected call comes after an accepted one (the set is not empty)
}
MODES = ['distinct', 'default', 'partial']


def shards(tier):
    out = []
    for mode in MODES:
        for combo in itertools.product(TEMPLATES, repeat=2):
            out.append({'kind': 'lf', 'mode': mode, 'templates': list(combo)})
    three = [('T1', 'T1', 'T1'), ('T1', 'T2', 'T1'), ('T2', 'T2', 'T2')] if tier == 'quick' else \
        [c for c in itertools.product(('T1', 'T2'), repeat=3)] + [('T1', 'T4', 'T2'), ('T4', 'T4', 'T1')]
    for mode in MODES:
        for combo in three:
            out.append({'kind': 'lf', 'mode': mode, 'templates': list(combo)})
    for mode in MODES:
        for combo in (('T5', 'T3'), ('T3', 'T5'), ('T5', 'T5'), ('T6', 'T3'), ('T3', 'T6'), ('T6', 'T6'), ('T6', 'T5')):
            out.append({'kind': 'lf', 'mode': mode, 'templates': list(combo)})
    out.append({'kind': 'frames'})
    return out


def bounds(tier):
    return {'logical_files': '2..3', 'templates': TEMPLATES, 'interleavings': 'all', 'frames': '1..3'}


def _interleavings(seqs):
    """All merges of the sequences preserving each one's order; yields lists of (lf index, position)."""
    def rec(pos, acc):
        if all(p == len(s) for p, s in zip(pos, seqs)):
            yield list(acc)
            return
        for i, s in enumerate(seqs):
            if pos[i] < len(s):
                pos[i] += 1
                acc.append((i, pos[i] - 1))
                yield from rec(pos, acc)
                acc.pop()
                pos[i] -= 1
    yield from rec([0] * len(seqs), [])


def cases(shard, tier):
    if shard['kind'] == 'frames':
        for nfr in (1, 2, 3):
            for rows in itertools.product((1, 2, 4), repeat=nfr):
                for names in ('distinct', 'same-index-name', 'all-same'):
                    for src in ('inline', 'dict', 'h5', 'struct'):
                        if src == 'struct' and len(set(rows)) > 1:
                            continue        # one structured array feeds all frames: equal row counts only
                        yield {'kind': 'frames', 'rows': list(rows), 'names': names, 'src': src}
                        if nfr > 1:
                            # every frame's channels in a CHANNEL set of their own (data set names stay file-wide unique)
                            yield {'kind': 'frames', 'rows': list(rows), 'names': names, 'src': src, 'chsets': 'per-frame'}
                        # a row window that lies inside every frame's data, and the input chunk size, apply per frame
                        for win in ((0, 1), (1, 2), (1, None)):
                            if (win[1] or win[0] + 1) > min(rows):
                                continue
                            for chunk in (None, 1):
                                yield {'kind': 'frames', 'rows': list(rows), 'names': names, 'src': src, 'win': list(win),
                                       'chunk': chunk}
        return
    seqs = [TEMPLATES[t] for t in shard['templates']]
    ils = list(_interleavings(seqs))
    # file-header sequence numbers that do not ascend in creation order (the files stay in creation order, each with
    # its own rows): for the sequential, the alternating and the reversed-sequential interleaving
    for il in (ils[0], ils[len(ils) // 2], ils[-1]):
        for seqnos in ('descending', 'equal', 'rotated'):
            yield {'kind': 'lf', 'mode': shard['mode'], 'templates': shard['templates'], 'order': il, 'wdata': None,
                   'seqnos': seqnos}
    for il in ils:
        # data passed to write() next to the inline arrays: nothing, an unrelated array, or an array overriding the
        # (equally named) data set of every logical file
        for wdata in ((None, 'extra', 'override') if shard['mode'] == 'distinct' else (None,)):
            yield {'kind': 'lf', 'mode': shard['mode'], 'templates': shard['templates'], 'order': il, 'wdata': wdata}
        if shard['mode'] == 'distinct' and len(seqs) == 2:
            # a row window (inside the data of every logical file's frame) applies to each logical file alike
            yield {'kind': 'lf', 'mode': shard['mode'], 'templates': shard['templates'], 'order': il, 'wdata': None,
                   'win': [1, 2]}


def lf_spec(c):
    k = len(c['templates'])
    sq = {'descending': lambda i: k - i, 'equal': lambda i: 1, 'rotated': lambda i: (i + 1) % k + 1}.get(c.get('seqnos'), lambda i: i + 1)
    ops = [{'op': 'lf', 'h': f'L{i}', 'kw': {'fh_id': f'LOGICAL-FILE-{i}', 'fh_sequence_number': sq(i)}} for i in range(k)]
    mode = c['mode']

    def sn(i, kind):
        if mode == 'distinct':
            return {'set_name': f'LF{i}'}
        if mode == 'partial' and kind not in ('zone',):
            return {'set_name': f'LF{i}'}
        return {}
    for i, pos in c['order']:
        e = TEMPLATES[c['templates'][i]][pos]
        L = f'L{i}'
        if e in ('O', 'O5'):
            kw = dict(sn(i, 'origin'))
            if e == 'O5':
                kw['origin_reference'] = 5 + i
            ops.append(S.op_origin(f'O{i}', f'ORIGIN-{i}', lf=L, **kw))
        elif e == 'CH':
            n = 2 + i
            ops.append(S.op_add('channel', f'C{i}', 'CHANNEL', lf=L,
                                data=S.arr_spec('uint16', [n], [100 * (i + 1) + r for r in range(n)]), **sn(i, 'channel')))
        elif e == 'FR':
            ops.append(S.op_add('frame', f'F{i}', 'FRAME', lf=L, channels=[{'$ref': f'C{i}'}], **sn(i, 'frame')))
        elif e == 'RZ':
            ops.append(S.op_add('zone', f'RZ{i}', 'REJECTED-ZONE', lf=L, expect='raise', description=17, **sn(i, 'zone')))
        elif e == 'ZN':
            ops.append(S.op_add('zone', f'Z{i}', 'ZONE', lf=L, description=f'zone of logical file {i}', **sn(i, 'zone')))
        elif e == 'NF':
            ops.append(S.op_add('no_format', f'N{i}', 'NOFORMAT', lf=L, **sn(i, 'no_format')))
            ops.append({'op': 'nfdata', 'lf': L, 'nf': f'N{i}', 'data': {'$bytes': bytes([0x10 + i] * (3 + i)).hex()}})
            ops.append({'op': 'nfdata', 'lf': L, 'nf': f'N{i}', 'data': f'text of logical file {i}'})
        elif e == 'PA':
            ops.append(S.op_add('parameter', f'P{i}', 'PARAM', lf=L, zones=[{'$ref': f'Z{i}'}], values=[float(i)],
                                **sn(i, 'parameter')))
    sp = {'sul': {'max_record_length': 8192}, 'ops': ops, 'write': {}}
    if c.get('win'):
        sp['write']['from_idx'], sp['write']['to_idx'] = c['win']
    if c.get('wdata') == 'extra':
        sp['write']['data'] = {'$datadict': {'EXTRA-UNUSED': S.arr_spec('float32', [2], [0x3F800000, 0x40000000])}}
    elif c.get('wdata') == 'override':
        sp['write']['data'] = {'$datadict': {'CHANNEL': S.arr_spec('uint16', [2], [7001, 7002])}}
    return sp


def frames_spec(c):
    ops = [S.op_lf(), S.op_origin()]
    data = {}
    for f, rows in enumerate(c['rows']):
        idx_name = 'DEPTH' if c['names'] != 'distinct' else f'DEPTH{f}'
        val_name = 'VALUE' if c['names'] == 'all-same' else f'VALUE{f}'
        a = S.arr_spec('float64', [rows], [0x4000000000000000 + ((f * 8 + r) << 44) for r in range(rows)])
        b = S.arr_spec('uint8', [rows, 2], [(10 * f + r) % 250 for r in range(2 * rows)])
        kwa, kwb = {}, {}
        if c['src'] == 'inline':
            kwa['data'], kwb['data'] = a, b
        # dataset names as the documented rule makes them unique: NAME, NAME__1, NAME__2
        if c.get('chsets') == 'per-frame' and f > 0:
            kwa['set_name'] = kwb['set_name'] = f'CHANNELS-OF-FRAME-{f}'
        ops.append(S.op_add('channel', f'CI{f}', idx_name, **kwa))
        ops.append(S.op_add('channel', f'CV{f}', val_name, **kwb))
        ops.append(S.op_add('frame', f'F{f}', f'FRAME{f}', channels=[{'$ref': f'CI{f}'}, {'$ref': f'CV{f}'}]))
        data[(f, 'i')] = a
        data[(f, 'v')] = b
    sp = {'sul': {'max_record_length': 8192}, 'ops': ops, 'write': {}}
    if c.get('win'):
        sp['write']['from_idx'] = c['win'][0]
        if c['win'][1] is not None:
            sp['write']['to_idx'] = c['win'][1]
    if c.get('chunk'):
        sp['write']['input_chunk_size'] = c['chunk']
    if c['src'] != 'inline':
        m = M.Model(sp)
        dd = {}
        for f in range(len(c['rows'])):
            dd[m.objs[f'CI{f}'].dataset_name] = data[(f, 'i')]
            dd[m.objs[f'CV{f}'].dataset_name] = data[(f, 'v')]
        if c['src'] == 'dict':
            sp['write']['data'] = {'$datadict': dd}
        elif c['src'] == 'struct':
            sp['write']['data'] = {'$struct': {'fields': [[k, v] for k, v in dd.items()]}}
        else:
            sp['write']['data'] = {'$h5': {('/' + k): v for k, v in dd.items()}}
    return sp


def run_case(c):
    sp = lf_spec(c) if c['kind'] == 'lf' else frames_spec(c)
    res = S.run_spec(sp)
    raised = res['failed_at'] is not None or res['write'] != 'ok'
    why = res['status'][-1] if res['failed_at'] is not None else res['write']
    m = M.Model(sp)
    viol = []
    if m.shared_sets:
        if not raised:
            kinds = '+'.join(sorted({k for k, _ in m.shared_sets}))
            tag = ':after-rejected-call' if any('RZ' in TEMPLATES[t] for t in c['templates']) else ''
            viol.append((f"C18:shared-set-written:{c['mode']}{tag}", f"sets {m.shared_sets} are shared between logical files but the "
                                                                f"file was written | {_brief(c)}"))
        return Outcome('shared:' + ('rejected' if raised else 'written'), viol, True, digest=str(raised))
    if raised:
        viol.append((f"C18:valid-rejected:{c['kind']}", f"{why} | {_brief(c)}"))
        return Outcome('raised', viol, True, digest=why[:40])
    try:
        lfs = R.split_logical_files(R.parse_physical(res['data']))
        if len(lfs) != len(m.lfs):
            viol.append(("C18:logical_file_count", f"{len(lfs)} logical files in file, {len(m.lfs)} created | {_brief(c)}"))
        for i, (mlf, lf) in enumerate(zip(m.lfs, lfs)):
            errs = (M.check_header_and_order(m, mlf, lf) + M.check_inventory(m, mlf, lf) + M.check_attrs(m, mlf, lf)
                    + M.check_identity_and_refs(m, mlf, lf) + M.check_rows(m, mlf, lf) + M.check_noformat(m, mlf, lf))
            for code, d in errs:
                viol.append((f"C18:{c['kind']}:{code.split(':')[0]}", f"logical file {i}: {d[:250]} | {_brief(c)}"))
    except R.FormatError as e:
        viol.append((f"C18:unparsable:{e.code}", f"{e} | {_brief(c)}"))
    return Outcome(f"ok:{c['kind']}:{c.get('mode', c.get('names'))}", viol, True, digest=sha(res['data']))


def _brief(c):
    if c['kind'] == 'lf':
        order = ' '.join(f"L{i}.{TEMPLATES[c['templates'][i]][p]}" for i, p in c['order'])
        return {'mode': c['mode'], 'templates': c['templates'], 'order': order, 'wdata': c.get('wdata'), 'win': c.get('win'), 'seqnos': c.get('seqnos')}
    return c
