"""C16 — no-format payloads come back exactly, in order, under their object."""
from __future__ import annotations

import itertools

from mc import spec as S, model as M, rp66 as R
from mc.engine import Outcome, sha

ID = 'C16'
ENGINE = 'E1 full product'
RULE = ("vrl x object-name length x payload length (0..40 and k*cap+{-2..2}) x kind {bytes, bytearray, str} x tail "
        "{plain, 01, 00, ff}, single payloads; plus all ordered sequences of 2..3 payloads from a 6-length window over "
        "1..2 NO-FORMAT objects in every interleaving; a third of the cases is written twice with the same objects, another third "
        "twice with the payloads changed in between (bytearrays in place, others through the record's data attribute), half of the rewritten cases with the NO-FORMAT objects moved to a second origin between the writes, "
        "and the second file is checked; plus 2..3 logical files with 0..2 payloads each, added in every interleaving "
        "across the files (each file must hold exactly its own); 2..3 equally named NO-FORMAT objects in one or several sets; non-trivial = file written and type-1 IFLRs compared")
ASSUMPTIONS = ["strict reader mc/rp66.py", "reference model mc/model.py"]


def shards(tier):
    vr = [32, 64, 8192] if tier == 'quick' else [32, 34, 40, 64, 100, 128, 1024, 8192, 16384]
    return [{'vrl': v, 'nlen': n, 'part': p} for v in vr for n in (1, 8, 20) for p in ('single', 'seq')] + \
        [{'vrl': 8192, 'nlen': 8, 'part': 'lfs', 'counts': list(c)}
         for k in (2, 3) for c in itertools.product((0, 1, 2), repeat=k) if any(c)] + \
        [{'vrl': 8192, 'nlen': 8, 'part': 'samename'}]


def bounds(tier):
    return {'payload_lengths': '0..40 U k*cap+{-2..2} (k=1,2)', 'sequence_length': '1..3', 'objects': '1..2'}


def payload(n, tail, seed=0):
    b = bytearray((17 * i + 5 + seed) % 256 for i in range(n))
    t = {'plain': b'', '01': b'\x01', '00': b'\x00', 'ff': b'\xff', '0101': b'\x01\x01'}[tail]
    if t and n >= len(t):
        b[n - len(t):] = t
    return bytes(b)


def enc(kind, b):
    if kind == 'bytes':
        return {'$bytes': b.hex()}
    if kind == 'bytearray':
        return {'$bytearray': b.hex()}
    return bytes(x % 95 + 32 for x in b).decode('ascii')


def _merges(counts):
    """All interleavings of counts[i] payloads of logical file i (each file's own order kept)."""
    def rec(left, acc):
        if not any(left):
            yield list(acc)
            return
        for i, n in enumerate(left):
            if n:
                left[i] -= 1
                acc.append(i)
                yield from rec(left, acc)
                acc.pop()
                left[i] += 1
    yield from rec(list(counts), [])


def cases(shard, tier):
    if shard['part'] == 'samename':
        # 2..3 equally named NO-FORMAT objects of one logical file, in one set or in sets of their own, payloads added
        # in every order: each record must come back under ITS object (the copy number tells them apart)
        for nobj in (2, 3):
            for sets in ('one-set', 'own-sets', 'first-two-share'):
                for order in itertools.product(range(nobj), repeat=3):
                    yield {'part': 'samename', 'nobj': nobj, 'sets': sets, 'order': list(order)}
                # a further add_no_format into the last object's set is refused because of its name (not a string)
                yield {'part': 'samename', 'nobj': nobj, 'sets': sets, 'order': [0, nobj - 1, 0], 'then_rejected_name': True}
        return
    if shard['part'] == 'lfs':
        # several logical files, each with its own NO-FORMAT object (equally named: distinct set names) and 0..2
        # payloads, the payloads added in every interleaving across the files
        for order in _merges(shard['counts']):
            for frames in (True,):
                yield {'part': 'lfs', 'counts': shard['counts'], 'order': order, 'frames': frames}
        return
    vrl, nlen = shard['vrl'], shard['nlen']
    cap = vrl - 8
    name = ('NOFORMAT-OBJECT-NAME-X' * 3)[:nlen]
    oblen = 3 + nlen
    if shard['part'] == 'single':
        lens = sorted(set(range(0, 41)) | {max(0, k * cap - oblen + d) for k in (1, 2) for d in (-2, -1, 0, 1, 2)})
        for n in lens:
            for kind in ('bytes', 'bytearray', 'str'):
                for tail in ('plain', '01', '00', 'ff', '0101'):
                    if kind == 'str' and tail != 'plain':
                        continue
                    yield {'vrl': vrl, 'names': [name], 'seq': [[0, n, kind, tail]]}
                    if kind == 'bytes' and tail in ('plain', '01'):
                        # an output buffer no larger than one or two visible records: the file is flushed piecewise
                        for ocs in (vrl, vrl + 2, 2 * vrl):
                            yield {'vrl': vrl, 'names': [name], 'seq': [[0, n, kind, tail]], 'ocs': ocs}
    else:
        win = [0, 1, 7, 12 - oblen if 12 - oblen > 0 else 2, 13, cap - oblen + 1]
        for k in (2, 3):
            for lens in itertools.product(win, repeat=k):
                if k == 3 and tier == 'quick' and len(set(lens)) == 1:
                    continue
                for objs in itertools.product((0, 1), repeat=k):
                    if objs[0] == 1:
                        continue        # symmetry: first payload always goes to object 0
                    yield {'vrl': vrl, 'names': [name, name[:-1] + 'Y' if nlen > 1 else 'Y'],
                           'seq': [[o, n, 'bytes', ('01', 'plain', '00')[i % 3]] for i, (o, n) in enumerate(zip(objs, lens))]}


def samename_spec(case):
    sp = S.minimal_spec(vrl=8192, rows=1)
    for i in range(case['nobj']):
        sn = {'one-set': {}, 'own-sets': {'set_name': f'PASS-{i}'},
              'first-two-share': {'set_name': 'PASS-A' if i < 2 else 'PASS-B'}}[case['sets']]
        sp['ops'].append(S.op_add('no_format', f'N{i}', 'IMAGE', **sn))
    for j, o in enumerate(case['order']):
        sp['ops'].append({'op': 'nfdata', 'lf': 'L0', 'nf': f'N{o}', 'h': f'R{j}',
                          'data': enc(('bytes', 'str', 'bytearray')[j % 3], payload(4 + j + 3 * o, 'plain', 7 * j + o))})
    if case.get('then_rejected_name'):
        sp['ops'].append(S.op_add('no_format', 'RJ', 5, expect='raise', **sn))
    return sp


def lfs_spec(case):
    k = len(case['counts'])
    ops = []
    for i in range(k):
        L = f'L{i}'
        ops.append({'op': 'lf', 'h': L, 'kw': {'fh_id': f'LF-{i}', 'fh_sequence_number': i + 1}})
        ops.append(S.op_origin(f'O{i}', f'ORIGIN-{i}', lf=L, set_name=f'S{i}'))
        if case['frames']:
            ops.append(S.op_add('channel', f'C{i}', 'CH', lf=L, set_name=f'S{i}',
                                data=S.arr_spec('uint8', [i + 1], list(range(i + 1)))))
            ops.append(S.op_add('frame', f'F{i}', 'FR', lf=L, set_name=f'S{i}', channels=[{'$ref': f'C{i}'}]))
        if case['counts'][i]:
            ops.append(S.op_add('no_format', f'N{i}', 'NOFORMAT', lf=L, set_name=f'S{i}'))
    seen = [0] * k
    for j, i in enumerate(case['order']):
        ops.append({'op': 'nfdata', 'lf': f'L{i}', 'nf': f'N{i}', 'h': f'R{j}',
                    'data': enc(('bytes', 'str', 'bytearray')[j % 3], payload(5 + 3 * i + seen[i], 'plain', 16 * i + seen[i]))})
        seen[i] += 1
    return {'sul': {'max_record_length': 8192}, 'ops': ops, 'write': {}}


def run_lfs(case):
    sp = samename_spec(case) if case['part'] == 'samename' else lfs_spec(case)
    res = S.run_spec(sp)
    if res['failed_at'] is not None:
        return Outcome('build-raised', [("C16:lfs:build-raised", f"{res['status'][-1]} | {case}")], False)
    if res['write'] != 'ok':
        return Outcome('write-raised', [("C16:lfs:write-raised", f"{res['write']} | {case}")], False)
    viol = []
    try:
        lfs = R.split_logical_files(R.parse_physical(res['data']))
        m = M.Model(sp)
        if len(lfs) != len(m.lfs):
            viol.append(("C16:lfs:count", f"{len(lfs)} logical files read, {len(m.lfs)} created | {case}"))
        for i, (mlf, lf) in enumerate(zip(m.lfs, lfs)):
            # (the records must also come under an object that IS in the file: inventory of the NO-FORMAT sets)
            inv = [(c_, d_) for c_, d_ in M.check_inventory(m, mlf, lf) if 'NO-FORMAT' in d_]
            for code, d in M.check_noformat(m, mlf, lf) + inv:
                viol.append((f"C16:lfs:{code}", f"logical file {i}: {d} | {case}"))
    except R.FormatError as e:
        viol.append((f"C16:unparsable:{e.code}", f"{e} | {case}"))
    return Outcome('ok:samename' if case['part'] == 'samename' else 'ok:lfs:%d' % len(case['counts']), viol, True, digest=sha(res['data']))


def make_spec(case):
    sp = S.minimal_spec(vrl=case['vrl'], rows=1)
    for i, n in enumerate(case['names']):
        sp['ops'].append(S.op_add('no_format', f'N{i}', n))
    for i, (o, n, kind, tail) in enumerate(case['seq']):
        sp['ops'].append({'op': 'nfdata', 'lf': 'L0', 'nf': f'N{o}', 'h': f'R{i}', 'data': enc(kind, payload(n, tail, i))})
    return sp


def _write_twice(sp, change=False, reidentify=False):
    """Write the same objects twice; returns the result of the SECOND write (run_spec-like). With ``change`` the
    payloads are changed between the writes: bytearrays are modified in place (the caller's own buffer), the others
    are replaced through the record's ``data`` attribute; sp['ops'] is updated to what the second file must hold."""
    import os
    from mc.engine import scratch_dir
    b = S.build(sp)
    res = {'status': b.status, 'failed_at': b.failed_at, 'write': 'skipped', 'data': None}
    if b.failed_at is not None:
        return res
    path = os.path.join(scratch_dir(), 'c16-twice.dlis')
    try:
        b.df.write(path, **S.write_kwargs(sp, b))
        if reidentify:
            # the NO-FORMAT objects are moved to the second origin: the records must follow their object
            for op in [o for o in sp['ops'] if o['op'] == 'add' and o['kind'] == 'no_format']:
                new_op = {'op': 'origin_ref', 'h': op['h'], 'value': 5}
                S.apply_op(b, new_op)
                sp['ops'].append(new_op)
        if change:
            for op in sp['ops']:
                if op['op'] != 'nfdata':
                    continue
                rec = b.objs[op['h']]
                d = op['data']
                if isinstance(d, dict) and '$bytearray' in d:
                    new = bytes(reversed(bytes.fromhex(d['$bytearray']))) if len(d['$bytearray']) > 2 else b'\xa5'
                    if len(new) == len(rec.data):
                        rec.data[:] = new               # in place: same buffer object
                    else:
                        rec.data = bytearray(new)
                    op['data'] = {'$bytearray': new.hex()}
                elif isinstance(d, dict):
                    new = bytes.fromhex(d['$bytes'])[::-1] + b'\x5a'
                    rec.data = new
                    op['data'] = {'$bytes': new.hex()}
                else:
                    rec.data = d.upper() + '!'
                    op['data'] = d.upper() + '!'
        b.df.write(path, **S.write_kwargs(sp, b))
        res['write'] = 'ok'
        res['data'] = open(path, 'rb').read()
    except Exception as e:  # noqa
        res['write'] = f"raised:{type(e).__name__}: {e}"
    return res


def run_case(case):
    if case.get('part') in ('lfs', 'samename'):
        return run_lfs(case)
    sp = make_spec(case)
    if case.get('ocs'):
        sp['write']['output_chunk_size'] = case['ocs']
    # every third case of a shard is written twice with the same objects; the second file is the one that is checked
    k = (sum(n for _, n, _, _ in case['seq']) + len(case['seq'])) % 3
    twice = k != 1
    # every other rewritten case also moves the NO-FORMAT objects to a second origin between the writes
    reid = twice and (sum(n for _, n, _, _ in case['seq']) // 3) % 2 == 1
    if reid:
        sp['ops'].insert(2, S.op_origin('O5', 'SECOND-ORIGIN', origin_reference=5))
    res = _write_twice(sp, change=(k == 2), reidentify=reid) if twice else S.run_spec(sp)
    if res['failed_at'] is not None:
        return Outcome('build-raised', [("C16:build-raised", f"{res['status'][-1]} | {case}")], False)
    if res['write'] != 'ok':
        # writability of small payloads is C15's concern; a raise never returns wrong bytes
        return Outcome('write-raised', [], False, digest=res['write'][:60])
    viol = []
    try:
        lfs = R.split_logical_files(R.parse_physical(res['data']))
        m = M.Model(sp)
        for code, d in M.check_noformat(m, m.lfs[0], lfs[0]):
            sig = f"C16:{code}"
            if code == 'nf_payload':
                # classify: bytes appended at the end (short-record padding inside the body)?
                sig += ':appended' if 'appended' in _classify(m, lfs[0]) else ':altered'
            viol.append((sig, f"{d} | {case}"))
    except R.FormatError as e:
        viol.append((f"C16:unparsable:{e.code}", f"{e} | {case}"))
    return Outcome('ok:%d%s%s' % (len(case['seq']), (':second-write', '', ':second-write-changed-payloads')[k] if twice else '',
                                 ':moved-to-other-origin' if reid else ''),
                   viol, True, digest=sha(res['data']))


def _classify(m, lf):
    got = [r.body for _, r, _ in lf.records if not r.is_eflr and r.type == 1]
    want = [b for _, b in m.lfs[0].nf]
    out = set()
    for g, (h, b) in zip(got, m.lfs[0].nf):
        ref, pos = R.decode_obname(g, 0)
        gb = g[pos:]
        if gb != b:
            out.add('appended' if gb.startswith(b) and len(gb) > len(b) else 'altered')
    return out
