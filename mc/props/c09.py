"""C09 — each logical file has the mandated order: header, origin, sets, then data."""
from __future__ import annotations

from mc import hist, spec as S, model as M, rp66 as R
from mc.engine import Outcome, sha

ID = 'C09'
ENGINE = 'E2-style exhaustive enumeration of add_* histories (depth-bounded) + E1 product of header parameters'
RULE = ("every history of add_* events up to the depth bound (origin first / in the middle / last, sets created in "
        "any order, several origins incl. one in a second named ORIGIN set, named and empty-string-named sets), each completed and written, plus header parameters (sequence "
        "number, id length, identifier text) given as parameters or as ready-made FileHeaderItem / StorageUnitLabel objects, or edited after construction (header id, FILE-ID, sequence number; also over-long values); data records must come after the set defining their object, also after a later call into that set was refused because of its name x 1..3 logical files with distinct set names; the reassembled record sequence "
        "of every logical file is checked for header / origin / sets / data order; non-trivial = file written and "
        "order checked")
ASSUMPTIONS = ["strict reader mc/rp66.py", "reference model mc/model.py"]


# every object kind that owns a set type of its own appears in the alphabet: the order of sets in the file depends on
# which set types exist and when they were first touched (e.g. WELL-REFERENCE shares the record type of ORIGIN)
C09_QUICK = hist.QUICK_EVENTS + ['WR', 'EQ', 'CP', 'ZNE', 'OS']       # OS: an origin in a second, named ORIGIN set


def _events(tier):
    return C09_QUICK if tier == 'quick' else hist.THOROUGH_EVENTS + ['ZNE', 'OS']


def depth(tier):
    return 4 if tier == 'quick' else 5


def bounds(tier):
    return {'depth': depth(tier), 'events': _events(tier)}


def shards(tier):
    return [{'first': e} for e in hist.enabled_events([], tier, _events(tier))] + [{'first': None}, {'header': True}]


def _histories(prefix, d, tier):
    yield prefix
    if len(prefix) < d:
        for e in hist.enabled_events(prefix, tier, _events(tier)):
            yield from _histories(prefix + [e], d, tier)


def cases(shard, tier):
    if shard.get('header'):
        for seq in (1, 42, 9999999999, 10 ** 10, 0, -3):
            for idlen in (0, 1, 64, 65, 66):
                for ident in ('0', 'Z', 'AB', ''):
                    for nlf in (1, 2, 3):
                        if (seq, idlen, ident) != (1, 1, '0') and nlf > 1 and (idlen not in (1, 65) or ident not in ('0', 'Z')):
                            continue
                        yield {'header': {'seq': seq, 'idlen': idlen, 'ident': ident, 'nlf': nlf}}
                        # the same parameters handed over as a ready-made FileHeaderItem / StorageUnitLabel
                        yield {'header': {'seq': seq, 'idlen': idlen, 'ident': ident, 'nlf': nlf, 'objects': True}}
        # header id and the defining origin's FILE-ID made to differ after the origin was added: the file must not be
        # written with the two disagreeing (refusing is fine)
        for late in ('header-id-edited', 'origin-file-id-edited', 'both-edited-alike', 'both-edited-alike-74-chars',
                     'sequence-number-edited', 'sequence-number-edited-11-digits'):
            yield {'header': {'seq': 1, 'idlen': 8, 'ident': '0', 'nlf': 1, 'late': late}}
        # header sequence numbers that do not ascend with the creation order of the logical files
        for nlf in (2, 3):
            for order in ('down', 'same', 'mixed'):
                yield {'header': {'seq': 5, 'idlen': 8, 'ident': '0', 'nlf': nlf, 'order': order}}
                yield {'header': {'seq': 5, 'idlen': 8, 'ident': '0', 'nlf': nlf, 'order': order, 'objects': True}}
        # every data record comes after the set that defines the object it belongs to - also when a later call into
        # that set was refused because of its name
        for kind in ('no_format', 'frame'):
            yield {'header': {'seq': 1, 'idlen': 8, 'ident': '0', 'nlf': 1, 'defined_before_data': kind}}
        # the ORIGIN set follows the header also when the logical file's first add_origin call was refused (after other
        # objects had been added) and the origin came with a second call
        for bad in ('creation_time', 'well_id', 'name'):
            yield {'header': {'seq': 1, 'idlen': 8, 'ident': '0', 'nlf': 1, 'refused_first_origin': bad}}
        # identifier contents: digits only, blanks at either end, lower case, punctuation (must stay left-justified)
        for idtext in ('20240917', '7', '001', ' LEADING-BLANK', 'TRAILING-BLANK ', 'mixed Case 12', '-', '1e5', '+42'):
            for seq in (1, 7777777777):
                for ident in ('0', '9', 'A'):
                    yield {'header': {'seq': seq, 'idtext': idtext, 'idlen': len(idtext), 'ident': ident, 'nlf': 1}}
                    yield {'header': {'seq': seq, 'idtext': idtext, 'idlen': len(idtext), 'ident': ident, 'nlf': 1,
                                      'objects': True}}
        return
    if shard['first'] is None:
        yield {'history': []}
        return
    for h in _histories([shard['first']], depth(tier), tier):
        yield {'history': h}


def _seq_offset(hd, k):
    """Offset of the k-th logical file's header sequence number: ascending by default; descending, all equal or
    up-and-down on request (the logical files are emitted in creation order whatever their numbers are)."""
    order = hd.get('order', 'up')
    n = hd['nlf']
    return {'up': k, 'down': n - 1 - k, 'same': 0, 'mixed': (1, 2, 0)[k % 3]}[order]


def header_spec(hd):
    ops = []
    for k in range(hd['nlf']):
        L = f'L{k}'
        ops.append({'op': 'lf', 'h': L, 'kw': {'fh_id': hd.get('idtext') or ('HEADER-ID-%d-' % k + 'x' * 80)[:hd['idlen']],
                                                'fh_sequence_number': hd['seq'] + (_seq_offset(hd, k) if hd['seq'] > 0 else 0),
                                                'fh_identifier': hd['ident']}})
        sn = {'set_name': f'LF{k}'} if hd['nlf'] > 1 else {}
        ops.append(S.op_origin(f'O{k}', f'ORIGIN-{k}', lf=L, **sn))
        ops.append(S.op_add('channel', f'C{k}', f'CH{k}', lf=L, data=S.arr_spec('uint8', [2], [1 + k, 2 + k]), **sn))
        ops.append(S.op_add('frame', f'F{k}', f'FR{k}', lf=L, channels=[{'$ref': f'C{k}'}], **sn))
    return {'sul': {}, 'ops': ops, 'write': {}, 'object_route': bool(hd.get('objects'))}


def run_case(case):
    viol = []
    if 'header' in case:
        hd = case['header']
        sp = header_spec(hd)
        valid = 1 <= hd['seq'] and hd['seq'] + hd['nlf'] - 1 <= 9999999999 and hd['idlen'] <= 65 and len(hd['ident']) == 1
        if hd.get('refused_first_origin'):
            bad = hd['refused_first_origin']
            kwb = {'creation_time': 'not a date'} if bad == 'creation_time' else {'well_id': 5} if bad == 'well_id' else {}
            rej = S.op_origin('RJ', 5 if bad == 'name' else 'REFUSED', **kwb)
            rej['expect'] = 'raise'
            origin = sp['ops'][1]
            sp['ops'] = [sp['ops'][0]] + sp['ops'][2:] + [rej, origin, S.op_add('zone', 'ZL', 'ZONE-ADDED-LAST')]
            res = S.run_spec(sp)
            if res['failed_at'] is not None or res['write'] != 'ok':
                why = res['status'][-1] if res['failed_at'] is not None else res['write']
                return Outcome('raised', [("C09:refused-first-origin:valid-rejected", f"{why} | {hd}")], True)
            try:
                lf = R.split_logical_files(R.parse_physical(res['data']))[0]
                m = M.Model(sp)
                for code, d in M.check_header_and_order(m, m.lfs[0], lf):
                    viol.append((f"C09:{code}:after-refused-first-origin", f"{d[:300]} | {hd}"))
            except R.FormatError as e:
                viol.append((f"C09:unparsable:{e.code}", f"{e} | {hd}"))
            return Outcome('refused-first-origin', viol, True, digest=sha(res['data']))
        if hd.get('defined_before_data'):
            k = hd['defined_before_data']
            if k == 'no_format':
                sp['ops'] += [S.op_add('no_format', 'NF', 'NOFORMAT'),
                              {'op': 'nfdata', 'lf': 'L0', 'nf': 'NF', 'data': 'some text'},
                              S.op_add('no_format', 'RJ', 5, expect='raise')]
            else:
                sp['ops'] += [S.op_add('channel', 'CX', 'EXTRA', data=S.arr_spec('uint8', [2], [8, 9])),
                              S.op_add('frame', 'RJ', 5, expect='raise', channels=[{'$ref': 'CX'}]),
                              S.op_add('frame', 'FX', 'EXTRA-FRAME', channels=[{'$ref': 'CX'}])]
            res = S.run_spec(sp)
            if res['failed_at'] is not None or res['write'] != 'ok':
                why = res['status'][-1] if res['failed_at'] is not None else res['write']
                return Outcome('raised', [("C09:defined-before-data:valid-rejected", f"{why} | {hd}")], True)
            try:
                lf = R.split_logical_files(R.parse_physical(res['data']))[0]
                m = M.Model(sp)
                defined = set()
                for _, r, st in lf.records:
                    if r.is_eflr:
                        if st is not None and st.type in ('FRAME', 'NO-FORMAT'):
                            defined |= {o.name for o in st.objects}
                    else:
                        ref, _ = R.decode_obname(r.body, 0)
                        if ref not in defined:
                            viol.append(("C09:data_before_definition", f"data record refers to {ref}, not defined by an earlier "
                                                                       f"FRAME / NO-FORMAT set ({sorted(map(str, defined))}) | {hd}"))
                            break
                for code, d in M.check_header_and_order(m, m.lfs[0], lf):
                    viol.append((f"C09:{code}", f"{d[:300]} | {hd}"))
            except R.FormatError as e:
                viol.append((f"C09:unparsable:{e.code}", f"{e} | {hd}"))
            return Outcome('defined-before-data', viol, True, digest=sha(res['data']))
        if hd.get('late'):
            new_id = 'EDITED-ID' if '74' not in hd['late'] else 'X' * 74
            if hd['late'].startswith(('header-id-edited', 'both-edited-alike')):
                sp['ops'].append({'op': 'fhid', 'lf': 'L0', 'value': new_id})
            if hd['late'].startswith(('origin-file-id-edited', 'both-edited-alike')):
                sp['ops'].append({'op': 'set', 'h': 'O0', 'attr': 'file_id', 'part': 'value', 'value': new_id})
            if hd['late'].startswith('sequence-number-edited'):
                sp['ops'].append({'op': 'fhid', 'lf': 'L0', 'attr': 'sequence_number',
                                  'value': 77 if '11' not in hd['late'] else 12345678901})
            res = S.run_spec(sp)
            raised = res['failed_at'] is not None or res['write'] != 'ok'
            if not raised:
                try:
                    lf = R.split_logical_files(R.parse_physical(res['data']))[0]
                    hid = R.attr_values(lf.records[0][2].objects[0], 'ID')
                    fid = R.attr_values(lf.objects('ORIGIN')[0], 'FILE-ID')
                    if [str(x).rstrip(' ') for x in hid] != [str(x).rstrip(' ') for x in fid]:
                        viol.append(("C09:origin_file_id:after-late-edit", f"file written with header id {hid!r} and FILE-ID {fid!r} | {hd}"))
                    seq = R.attr_values(lf.records[0][2].objects[0], 'SEQUENCE-NUMBER')
                    if len(hid) != 1 or len(str(hid[0])) != 65 or len(seq) != 1 or len(str(seq[0])) != 10:
                        viol.append(("C09:header_field_width:after-late-edit", f"header fields {seq!r} / {hid!r} are not 10 / 65 characters wide | {hd}"))
                    if 'sequence-number-edited' == hd['late'] and str(seq[0]).strip() != '77':
                        viol.append(("C09:header_sequence_number:after-late-edit", f"sequence number {seq!r} after it was set to 77 | {hd}"))
                except R.FormatError as e:
                    viol.append((f"C09:unparsable:{e.code}", f"{e} | {hd}"))
            return Outcome('late-edit:' + ('refused' if raised else 'written'), viol, True, digest=str(raised))
        res = S.run_spec(sp)
        raised = res['failed_at'] is not None or res['write'] != 'ok'
        if not valid:
            if not raised:
                viol.append(("C09:header:accepted-invalid", f"header parameters out of range were written | {hd}"))
            return Outcome('header-rejected', viol, True, digest=str(raised))
        if raised:
            viol.append(("C09:header:rejected-valid", f"{res['status'][-1] if res['failed_at'] is not None else res['write']} | {hd}"))
            return Outcome('raised', viol, True)
        tag = f"header:{hd['nlf']}lf"
    else:
        h = case['history']
        sp = hist.to_spec(h)
        res = S.run_spec(sp)
        if res['failed_at'] is not None or res['write'] != 'ok':
            viol.append(("C09:valid-history-rejected", f"{res['status'][-1] if res['failed_at'] is not None else res['write']} | {h}"))
            return Outcome('raised', viol, False)
        tag = 'origin-first' if h and h[0] in ('O', 'O5', 'OS') else 'origin-later' if ('O' in h or 'O5' in h or 'OS' in h) else 'origin-last'
    try:
        lfs = R.split_logical_files(R.parse_physical(res['data']))
        m = M.Model(sp)
        if len(lfs) != len(m.lfs):
            viol.append(("C09:logical_file_count", f"{len(lfs)} FILE-HEADER records, {len(m.lfs)} logical files | {case}"))
        for mlf, lf in zip(m.lfs, lfs):
            for code, d in M.check_header_and_order(m, mlf, lf):
                viol.append((f"C09:{code}", f"{d[:300]} | {case}"))
    except R.FormatError as e:
        viol.append((f"C09:unparsable:{e.code}", f"{e} | {case}"))
    return Outcome('ok:' + tag, viol, True, digest=sha(res['data']))
