"""C15 — writability never hinges on byte-size coincidences."""
from __future__ import annotations

from mc import wl, spec as S, model as M, rp66 as R
from mc.engine import Outcome, sha

ID = 'C15'
ENGINE = 'E1 full product (writer level) + size ladder end-to-end'
RULE = ("writer level: every vrl of the tier x every body length 1..60 and k*cap+-14 x {EFLR, IFLR}, write must "
        "succeed and pass the C01/C02 oracles; end-to-end: the minimal specification at every vrl of the tier (record length given as a keyword, through a ready-made label, or set on the label afterwards), and a "
        "size ladder (frame row width 1..24 bytes, frame/channel/no-format name lengths 1..255, payloads 0..30) at "
        "small and default record lengths; ordered pairs of record lengths written one after the other in one process; single records of 500..4000 segments; non-trivial = the write was attempted on a valid specification")
ASSUMPTIONS = ["strict reader mc/rp66.py", "reference model mc/model.py"]


def shards(tier):
    out = [dict(s, kind='wl') for s in wl.wl_shards(tier)]
    v = wl.vrl_list(tier)
    n = 16 if tier == 'quick' else 128
    out += [{'kind': 'min', 'vrls': v[i:i + n]} for i in range(0, len(v), n)]
    lad = [20, 22, 30, 32, 34, 64, 128, 8192] if tier == 'quick' else [20, 22, 24, 26, 28, 30, 32, 34, 40, 64, 128, 1000, 8192, 16384]
    out += [{'kind': 'ladder', 'vrl': x} for x in lad]
    out.append({'kind': 'pairs'})
    out += [{'kind': 'long', 'vrl': v_} for v_ in (20, 22, 32, 64, 128)]
    return out


def bounds(tier):
    v = wl.vrl_list(tier)
    return {'vrl_count': len(v), 'body_lengths': '1..60 U k*cap+-14', 'row_width_bytes': '1..24', 'name_lengths': '1..255'}


DT = ['uint8', 'uint16', 'uint32', 'float64']


def cases(shard, tier):
    if shard['kind'] == 'wl':
        for vrl in shard['vrls']:
            cap = vrl - 8
            for L in wl.window(max(cap, 12)):
                for cn in ('E3', 'I0', 'I1'):
                    yield {'k': 'wl', 'vrl': vrl, 'recs': [[cn, L, L % 5]], 'ocs': 2 ** 16}
            # several records with a small output buffer (flushed between records)
            for L in (1, 11, cap - 1, cap + 1, 3 * cap + 5):
                yield {'k': 'wl', 'vrl': vrl, 'recs': [['I1', L, 1], ['E3', L + 1, 2], ['I0', max(L - 1, 1), 3]], 'ocs': vrl}
                yield {'k': 'wl', 'vrl': vrl, 'recs': [['I1', L, 1], ['E3', L + 1, 2], ['I0', max(L - 1, 1), 3]], 'ocs': vrl + 2}
    elif shard['kind'] == 'long':
        # ONE record of several hundred to several thousand segments ("many times the record capacity")
        vrl = shard['vrl']
        cap = vrl - 8
        for nseg in (500, 989, 990, 1001, 1500, 2500, 4000):
            for r in (0, 5, 11):
                for cn in ('I1', 'E3'):
                    yield {'k': 'wl', 'vrl': vrl, 'recs': [[cn, nseg * cap + r, r % 5]], 'ocs': 2 ** 16}
        # and end to end: a no-format payload and a frame row of that size
        for nseg in (1001, 2500):
            yield {'k': 'nf', 'vrl': vrl, 'n': nseg * cap + 3}
    elif shard['kind'] == 'pairs':
        # two files written one after the other in one process with different record lengths: what can be written must
        # not depend on what was written before
        vs = [8192, 16384, 1024, 256, 100, 64, 32, 22, 20]
        for a in vs:
            for b in vs:
                if a != b:
                    yield {'k': 'pair', 'vrl': b, 'first_vrl': a}
    elif shard['kind'] == 'min':
        for vrl in shard['vrls']:
            yield {'k': 'min', 'vrl': vrl}
            # the record length reaches the writer through a ready-made label, or is set on the label afterwards
            yield {'k': 'min', 'vrl': vrl, 'route': 'object'}
            yield {'k': 'min', 'vrl': vrl, 'route': 'reconfigured'}
    else:
        vrl = shard['vrl']
        for width in range(1, 25):
            yield {'k': 'row', 'vrl': vrl, 'width': width}
        for n in (1, 2, 3, 7, 8, 9, 20, 100, 127, 128, 200, 255):
            for what in ('frame', 'channel', 'no_format'):
                yield {'k': 'name', 'vrl': vrl, 'what': what, 'n': n}
        for n in list(range(0, 31)) + [vrl - 8 - 4 - 2, vrl - 8 - 4, vrl - 8 - 4 + 2, 3 * (vrl - 8)]:
            if n >= 0:
                yield {'k': 'nf', 'vrl': vrl, 'n': n}


def make_spec(case):
    k = case['k']
    if k == 'pair':
        return S.minimal_spec(vrl=case['vrl'], rows=2)
    if k == 'min':
        sp = S.minimal_spec(vrl=case['vrl'], rows=2)
        if case.get('route') == 'object':
            sp['object_route'] = True
        elif case.get('route') == 'reconfigured':
            sp['sul']['max_record_length'] = 8192 if case['vrl'] != 8192 else 64
            sp['ops'].append({'op': 'sul', 'kw': {'max_record_length': case['vrl']}})
        return sp
    if k == 'row':
        # decompose the row width into 1..3 channels of supported sizes (1, 2, 4, 8 bytes)
        w = case['width']
        parts = []
        for size, dt in ((8, 'float64'), (4, 'uint32'), (2, 'uint16'), (1, 'uint8')):
            while w >= size and len(parts) < 6:
                parts.append(dt)
                w -= size
        sp = {'sul': {'max_record_length': case['vrl']}, 'ops': [S.op_lf(), S.op_origin()], 'write': {}}
        refs = []
        for i, dt in enumerate(parts):
            pat = [1 + i, 2 + i] if dt != 'float64' else [0x3FF0000000000000 + i, 0x4000000000000000 + i]
            sp['ops'].append(S.op_add('channel', f'C{i}', f'C{i}', data=S.arr_spec(dt, [2], pat)))
            refs.append({'$ref': f'C{i}'})
        sp['ops'].append(S.op_add('frame', 'F0', 'F', channels=refs))
        return sp
    if k == 'name':
        nm = ('ABCDEFGHIJ' * 26)[:case['n']]
        sp = S.minimal_spec(vrl=case['vrl'], rows=1, dtype='uint8')
        if case['what'] == 'frame':
            sp['ops'][-1]['name'] = nm
        elif case['what'] == 'channel':
            sp['ops'][-2]['name'] = nm
        else:
            sp['ops'].append(S.op_add('no_format', 'N0', nm))
            sp['ops'].append({'op': 'nfdata', 'lf': 'L0', 'nf': 'N0', 'data': {'$bytes': '0a0b'}})
        return sp
    if k == 'nf':
        sp = S.minimal_spec(vrl=case['vrl'], rows=1)
        sp['ops'].append(S.op_add('no_format', 'N0', 'NF'))
        sp['ops'].append({'op': 'nfdata', 'lf': 'L0', 'nf': 'N0',
                          'data': {'$bytes': bytes((i * 3 + 1) % 256 for i in range(case['n'])).hex()}})
        return sp
    raise ValueError(case)


def run_case(case):
    viol = []
    if case['k'] == 'wl':
        res = wl.run_writer(case)
        L = case['recs'][0][1]
        if 'exc' in res:
            why = 'short-body' if L < 12 else ('small-capacity' if case['vrl'] < 32 else 'other')
            viol.append((f"C15:wl:raised:{why}", f"{res['exc']} | {case}"))
            return Outcome('raised', viol, True, digest=wl.digest_of(res))
        bad = wl.check_layout(res['data'], case['vrl']) or wl.check_reassembly(res['data'], res['given'])
        if bad:
            viol.append((f"C15:wl:malformed:{bad[0]}", f"{bad[1]} | {case}"))
        cls = 'ok:short-body' if L < 12 else 'ok:small-capacity' if case['vrl'] < 32 else \
            'ok:multi-segment' if L > case['vrl'] - 8 else 'ok:single-segment'
        return Outcome(cls, viol, True, digest=wl.digest_of(res))
    if case['k'] == 'pair':
        S.run_spec(S.minimal_spec(vrl=case['first_vrl'], rows=2), fname='first.dlis')
    sp = make_spec(case)
    # alternate between a large output buffer and the smallest accepted one (a flush after nearly every record)
    if (case.get('width', 0) + case.get('n', 0) + case['vrl']) % 4 == 2 or case['k'] == 'min':
        sp['write'] = dict(sp.get('write') or {}, output_chunk_size=case['vrl'])
    res = S.run_spec(sp)
    if res['failed_at'] is not None:
        viol.append((f"C15:e2e:{case['k']}:build-raised", f"{res['status'][-1]} | {case}"))
        return Outcome('build-raised', viol, True)
    if res['write'] != 'ok':
        why = 'small-capacity' if case['vrl'] < 32 else 'short-record' if 'shorter than 12' in res['write'] else 'other'
        viol.append((f"C15:e2e:{case['k']}:raised:{why}", f"{res['write']} | {case}"))
        return Outcome('raised', viol, True, digest=res['write'][:50])
    try:
        lfs = R.split_logical_files(R.parse_physical(res['data']))
        m = M.Model(sp)
        errs = (M.check_rows(m, m.lfs[0], lfs[0]) + M.check_noformat(m, m.lfs[0], lfs[0])
                + M.check_inventory(m, m.lfs[0], lfs[0]))
        for code, d in errs:
            viol.append((f"C15:e2e:{case['k']}:wrong:{code}", f"{d} | {case}"))
    except R.FormatError as e:
        viol.append((f"C15:e2e:{case['k']}:unparsable:{e.code}", f"{e} | {case}"))
    return Outcome(f"ok:e2e:{case['k']}:{'small-capacity' if case['vrl'] < 32 else 'regular'}", viol, True,
                   digest=sha(res['data']))
