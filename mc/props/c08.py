"""C08 — a frame's channel descriptors match the layout of its data records."""
from __future__ import annotations

import itertools

from mc import spec as S, model as M, rp66 as R
from mc.engine import Outcome, sha
from mc.props.c03 import PAL, CASTS, DTYPES

ID = 'C08'
ENGINE = 'E1 full product'
RULE = ("full product dtype x width {scalar,1,3} x cast x user DIMENSION {unset, equal, different} x user "
        "ELEMENT-LIMIT {unset, equal, larger, more dimensions, smaller} x topology {plain, channel shared by two frames, "
        "extra channel outside frames, one dataset under two channel names in two frames / in one frame with different casts, three channels, two equally named channels in one frame (must be refused)} x source {inline, dict, structured array, HDF5} x route of the user values {keywords at creation, public setters afterwards}; "
        "inconsistent user values must raise; otherwise descriptors are read from the file and must slice every "
        "record; non-trivial = file written and descriptors compared")
ASSUMPTIONS = ["strict reader mc/rp66.py", "reference model mc/model.py"]
TOPO = ['plain', 'shared', 'extra', 'alias', 'alias-same-frame', 'three', 'dup-name']


def shards(tier):
    return [{'dtype': d, 'topo': t} for d in DTYPES for t in TOPO]


def bounds(tier):
    return {'rows': 2, 'widths': ['scalar', 1, 3], 'full_product': True}


def cases(shard, tier):
    d = shard['dtype']
    widths = ['s', 1, 3] if tier == 'quick' else ['s', 1, 2, 3, 5]
    for width, cast, dim, el, src in itertools.product(widths, CASTS[d], ['unset', 'equal', 'different'],
                                                       ['unset', 'equal', 'larger', 'moredims', 'smaller'],
                                                       ['inline', 'dict', 'struct', 'h5', 'struct-padded']):
        if shard['topo'] == 'dup-name' and (dim != 'unset' or el != 'unset'):
            continue
        if src in ('struct', 'h5', 'struct-padded') and shard['topo'] in ('alias', 'alias-same-frame'):
            continue        # aliasing needs a data set name that differs from the channel name: dict/inline only
        yield {'dtype': d, 'topo': shard['topo'], 'width': width, 'cast': cast, 'dim': dim, 'el': el, 'src': src}
        if (dim != 'unset' or el != 'unset' or cast) and src in ('inline', 'dict'):
            # the same user values assigned through the public setters after the channel was created
            yield {'dtype': d, 'topo': shard['topo'], 'width': width, 'cast': cast, 'dim': dim, 'el': el, 'src': src,
                   'route': 'later'}
        if src == 'dict' and dim == 'unset' and el in ('unset', 'larger'):
            # the same objects were written before with data of another width / another dtype
            for earlier in ('other-width', 'other-dtype'):
                yield {'dtype': d, 'topo': shard['topo'], 'width': width, 'cast': cast, 'dim': dim, 'el': el, 'src': src,
                       'earlier': earlier}


def make_spec(c):
    rows = 2
    w = None if c['width'] == 's' else c['width']
    shape = [rows] if w is None else [rows, w]
    n = rows * (w or 1)
    p = PAL[c['dtype']]
    arr = S.arr_spec(c['dtype'], shape, [p[k % len(p)] for k in range(n)])
    true_dim = [w or 1]
    kw = {}
    if c['cast']:
        kw['cast_dtype'] = {'$dtype': c['cast']}
    if c['dim'] == 'equal':
        kw['dimension'] = true_dim
    elif c['dim'] == 'different':
        kw['dimension'] = [true_dim[0] + 1]
    if c['el'] == 'equal':
        kw['element_limit'] = true_dim
    elif c['el'] == 'larger':
        kw['element_limit'] = [true_dim[0] + 4]
    elif c['el'] == 'moredims':
        kw['element_limit'] = [true_dim[0] + 1, 7]
    elif c['el'] == 'smaller':
        kw['element_limit'] = [true_dim[0] - 1] if true_dim[0] > 1 else None
    data = {}
    ops = [S.op_lf(), S.op_origin()]

    ops_by_h = {}

    def chan(h, name, a, **k):
        ops_by_h[h] = name
        if c['src'] == 'inline':
            k['data'] = a
        else:
            data[k.get('dataset_name') or name] = a
        ops.append(S.op_add('channel', h, name, **{x: y for x, y in k.items() if y is not None}))

    if c.get('route') == 'later':
        chan('C0', 'CH-T', arr)
        for key, val in kw.items():
            if val is None:
                continue
            if key == 'cast_dtype':
                ops.append({'op': 'cast', 'h': 'C0', 'value': val})
            else:
                ops.append({'op': 'set', 'h': 'C0', 'attr': key, 'part': 'value', 'value': val})
    else:
        chan('C0', 'CH-T', arr, **kw)
    idx = S.arr_spec('float64', [rows], [0x3FF0000000000000, 0x4000000000000000])
    t = c['topo']
    if t == 'plain':
        ops.append(S.op_add('frame', 'F0', 'FR0', channels=[{'$ref': 'C0'}]))
    elif t == 'shared':
        chan('C1', 'IDX', idx)
        ops.append(S.op_add('frame', 'F0', 'FR0', channels=[{'$ref': 'C1'}, {'$ref': 'C0'}]))
        ops.append(S.op_add('frame', 'F1', 'FR1', channels=[{'$ref': 'C0'}]))
    elif t == 'extra':
        chan('C1', 'LONELY', idx, dimension=[1])
        ops.append(S.op_add('frame', 'F0', 'FR0', channels=[{'$ref': 'C0'}]))
    elif t == 'alias':
        ops.append(S.op_add('channel', 'C1', 'CH-ALIAS', **({'cast_dtype': {'$dtype': c['cast']}} if c['cast'] else {})))
        ops.append({'op': 'dsname', 'h': 'C1', 'value': 'CH-T'})
        ops.append(S.op_add('frame', 'F0', 'FR0', channels=[{'$ref': 'C0'}]))
        ops.append(S.op_add('frame', 'F1', 'FR1', channels=[{'$ref': 'C1'}]))
    elif t == 'alias-same-frame':
        # a second channel of the SAME frame reads the same dataset but with another cast (or none)
        other = None if c['cast'] else CASTS[c['dtype']][1]
        ops.append(S.op_add('channel', 'C1', 'CH-ALIAS', **({'cast_dtype': {'$dtype': other}} if other else {})))
        ops.append({'op': 'dsname', 'h': 'C1', 'value': 'CH-T'})
        chan('C2', 'IDX', idx)
        ops.append(S.op_add('frame', 'F0', 'FR0', channels=[{'$ref': 'C2'}, {'$ref': 'C0'}, {'$ref': 'C1'}]))
    elif t == 'dup-name':
        # a second channel of the same name in the same frame: the rows are addressed by channel name, so the frame
        # cannot be laid out; it must be refused (a file whose FRAME lists more channels than its records hold is wrong)
        ops.append(S.op_add('channel', 'C1', 'CH-T', **({'data': idx} if c['src'] == 'inline' else {})))
        if c['src'] != 'inline':
            data['CH-T__1'] = idx
        ops_by_h['C1'] = 'CH-T__1'
        ops.append(S.op_add('frame', 'F0', 'FR0', channels=[{'$ref': 'C0'}, {'$ref': 'C1'}]))
    elif t == 'three':
        chan('C1', 'IDX', idx)
        chan('C2', 'TAIL', S.arr_spec('uint16', [rows, 2], [1, 2, 3, 4]))
        ops.append(S.op_add('frame', 'F0', 'FR0', channels=[{'$ref': 'C1'}, {'$ref': 'C0'}, {'$ref': 'C2'}]))
    sp = {'sul': {'max_record_length': 8192}, 'ops': ops, 'write': {}}
    if c['src'] == 'dict':
        sp['write']['data'] = {'$datadict': data}
    elif c['src'] in ('struct', 'struct-padded'):
        # fields in the order in which the frames list their channels (a structured source equal to the frame's dtype)
        order = [op['name'] for op in ops if op.get('kind') == 'channel']
        frame_order = [ops_by_h[r['$ref']] for op in ops if op.get('kind') == 'frame' for r in op['kw']['channels']]
        names = list(dict.fromkeys(frame_order + order))
        sp['write']['data'] = {'$struct': {'fields': [[k, data[k]] for k in names if k in data],
                                           'padded': c['src'] == 'struct-padded'}}
    elif c['src'] == 'h5':
        sp['write']['data'] = {'$h5': {'/' + k: v for k, v in data.items()}}
    return sp


def _with_earlier_write(c, sp):
    import os
    from mc.engine import scratch_dir
    b = S.build(sp)
    res = {'status': b.status, 'failed_at': b.failed_at, 'write': 'skipped', 'data': None}
    if b.failed_at is not None:
        return res
    kw = S.write_kwargs(sp, b)
    w = None if c['width'] == 's' else c['width']
    if c['earlier'] == 'other-width':
        dt, shape = c['dtype'], ([2, 2] if w is None else ([2] if w == 1 else [2, w - 1]))
    else:
        dt, shape = ('float32' if c['dtype'] != 'float32' else 'uint16'), ([2] if w is None else [2, w])
    n = 1
    for k in shape:
        n *= k
    first = dict(kw['data'])
    first['CH-T'] = S.make_array(S.arr_spec(dt, shape, [PAL[dt][k % len(PAL[dt])] for k in range(n)]))
    p1 = os.path.join(scratch_dir(), 'c08-first.dlis')
    try:
        b.df.write(p1, **dict(kw, data=first))
    except Exception as e:  # noqa
        # the earlier write itself may legitimately be refused (e.g. user element limit too small for it)
        pass
    p2 = os.path.join(scratch_dir(), 'out.dlis')
    try:
        b.df.write(p2, **kw)
        res['write'] = 'ok'
        res['data'] = open(p2, 'rb').read()
    except Exception as e:  # noqa
        res['write'] = f"raised:{type(e).__name__}: {e}"
    return res


def run_case(c):
    must_raise = c['dim'] == 'different' or (c['el'] == 'smaller' and c['width'] not in ('s', 1)) or c['topo'] == 'dup-name'
    sp = make_spec(c)
    res = _with_earlier_write(c, sp) if c.get('earlier') else S.run_spec(sp)
    viol = []
    raised = res['failed_at'] is not None or res['write'] != 'ok'
    if must_raise:
        if not raised:
            viol.append((f"C08:accepted-inconsistent:{'same-named-channels-in-frame' if c['topo'] == 'dup-name' else 'dimension' if c['dim'] == 'different' else 'element-limit'}",
                         f"user values inconsistent with the data were written | {c}"))
        return Outcome('rejected' if raised else 'accepted-inconsistent', viol, True, digest=str(raised))
    if raised:
        why = res['status'][-1] if res['failed_at'] is not None else res['write']
        viol.append(("C08:raised-on-consistent", f"{why} | {c}"))
        return Outcome('raised', viol, True, digest=why[:40])
    try:
        lfs = R.split_logical_files(R.parse_physical(res['data']))
        m = M.Model(sp)
        for code, d in M.check_channel_descriptors(m, m.lfs[0], lfs[0]) + M.check_rows(m, m.lfs[0], lfs[0]):
            viol.append((f"C08:{code}" + (':after-earlier-write' if c.get('earlier') else ''), f"{d[:300]} | {c}"))
    except R.FormatError as e:
        viol.append((f"C08:unparsable:{e.code}", f"{e} | {c}"))
    return Outcome(f"ok:{c['topo']}:{c['el']}" + (':rewrite' if c.get('earlier') else ''), viol, True, digest=sha(res['data']))
