"""C19 — writing never alters the caller's data."""
from __future__ import annotations

import hashlib
import itertools
import os

from mc import spec as S
from mc.engine import Outcome, sha, scratch_dir
from mc.props import c03

ID = 'C19'
ENGINE = 'E1 full product with before/after snapshots of every buffer handed to the library'
RULE = ("full product dtype x byte order x shape {scalar, (R,2)} x layout {C, F, strided, read-only, view into a "
        "larger buffer} x cast x source kind {inline, dict, structured array, HDF5, mixed inline + dict} x frame with / without index type x input chunk x window x outcome "
        "{valid write, failing write: unsupported second channel, bad window}; before the write the harness snapshots "
        "the root buffer of every array (so memory around views is covered), the dict's keys and value identities, the "
        "structured array and the SHA-256 of the HDF5 file; after the write (success or exception) all must be "
        "unchanged, and read-only inputs must not make a valid write fail; non-trivial = run whose snapshots were "
        "compared")
ASSUMPTIONS = ["arrays are created by the harness (mc/spec.make_array) and tracked through a registry"]

REG: list = []
_orig_make_array = S.make_array


def _tracking_make_array(a):
    arr = _orig_make_array(a)
    REG.append(arr)
    return arr


def shards(tier):
    return [{'dtype': d, 'src': s} for d in c03.DTYPES for s in c03.SRC + ['mixed']]


def bounds(tier):
    return {'rows': 3, 'shapes': ['scalar', '(R,2)'], 'windows': ['all', '[1,2)'], 'failures': ['none', 'bad-second-channel', 'bad-window']}


def cases(shard, tier):
    d, src = shard['dtype'], shard['src']
    casts = c03.CASTS[d][:2] if tier == 'quick' else c03.CASTS[d][:3]
    # lossy casts too (float with NaN/inf -> integer, wide -> narrow integer): the file content is C03's business,
    # here only the caller's arrays matter
    casts = casts + (['int32', 'uint8'] if d.startswith('float') else ['int8' if d != 'int8' else 'uint8'])
    chunks = [None, 1] if tier == 'quick' else [None, 1, 2, 3]
    wins = [None, (1, 2)] if tier == 'quick' else [None, (1, 2), (0, 2), (1, 3), (2, 3)]
    layouts = ['C', 'F', 'strided', 'readonly', 'view'] if src in ('inline', 'dict', 'mixed') else ['C', 'readonly']
    for bo, shape, layout, cast, chunk, win, fail in itertools.product(
            ['<', '>'], ['s', 'w2'], layouts, casts, chunks, wins,
            ['none', 'bad-second-channel', 'bad-window']):
        yield {'dtype': d, 'src': src, 'bo': bo, 'shape': shape, 'layout': layout, 'cast': cast, 'chunk': chunk,
               'win': win, 'fail': fail}
        if shape == 's' and fail == 'none':
            # the first channel is the index of a frame WITH an index type (spacing, direction, range are worked out
            # from it; the palette values are neither uniform nor monotonic)
            yield {'dtype': d, 'src': src, 'bo': bo, 'shape': shape, 'layout': layout, 'cast': cast, 'chunk': chunk,
                   'win': win, 'fail': fail, 'itype': 'BOREHOLE-DEPTH'}


def _root(arr):
    r = arr
    while getattr(r, 'base', None) is not None and hasattr(r.base, 'dtype'):
        r = r.base
    return r


def _snap_array(arr):
    import numpy as np
    r = _root(arr)
    return (id(arr), str(arr.dtype), arr.shape, arr.strides, arr.flags.writeable,
            hashlib.sha256(np.ascontiguousarray(r).view(np.uint8).tobytes() if r.dtype.names is None
                           else np.ascontiguousarray(r).tobytes()).hexdigest())


def run_case(c):
    import numpy as np
    S.make_array = _tracking_make_array
    try:
        return _run(c, np)
    finally:
        S.make_array = _orig_make_array


def _run(c, np):
    rows = 3
    size = c03.DTYPE_SIZES[c['dtype']]
    w = None if c['shape'] == 's' else 2
    p = c03.PAL[c['dtype']]
    n = rows * (w or 1)
    ch0 = {'dtype': c['dtype'], 'bo': c['bo'], 'shape': [rows] if w is None else [rows, w],
           'pat': [p[k % len(p)] for k in range(n)], 'layout': c['layout'], 'cast': c['cast']}
    chans = [ch0, {'dtype': 'float32', 'bo': '<', 'shape': [rows], 'pat': [0x3F800000, 0x40000000, 0x40400000],
                   'layout': c['layout'] if c['layout'] != 'F' else 'C', 'cast': None}]
    sp = c03.make_spec({'src': 'dict' if c['src'] == 'mixed' else c['src'], 'vrl': 8192, 'chans': chans, 'chunk': c['chunk']})
    if c.get('itype'):
        [op for op in sp['ops'] if op.get('kind') == 'frame'][0]['kw']['index_type'] = c['itype']
    if c['src'] == 'mixed':
        # the first channel's array is given at creation, the second one through the dict passed to write()
        arr0 = sp['write']['data']['$datadict'].pop('CH0')
        sp['ops'][2]['kw']['data'] = arr0
    if c['win']:
        sp['write']['from_idx'], sp['write']['to_idx'] = c['win']
    if c['fail'] == 'bad-window':
        sp['write']['from_idx'], sp['write']['to_idx'] = 2, 1
    del REG[:]
    b = S.build(sp)
    if b.failed_at is not None:
        return Outcome('build-raised', [("C19:build-raised", f"{b.status[-1]} | {c}")], False)
    kw = S.write_kwargs(sp, b)
    data = kw.get('data')
    if c['fail'] == 'bad-second-channel':
        # swap the second channel's data for an unsupported dtype: the write must fail after the first was handled
        bad = np.arange(rows, dtype=np.int64)
        REG.append(bad)
        if isinstance(data, dict):
            data['CH1'] = bad
        elif c['src'] == 'inline':
            lf = b.lfs['L0']
            kw['data'] = {'CH1': bad}
            data = kw['data']
        else:
            return Outcome('n/a', [], False)
    arrays = list(REG)
    if isinstance(data, np.ndarray) and not any(a is data for a in arrays):
        arrays.append(data)
    before = [_snap_array(a) for a in arrays]
    dict_before = (list(data.keys()), [id(v) for v in data.values()]) if isinstance(data, dict) else None
    h5_before = hashlib.sha256(open(data, 'rb').read()).hexdigest() if isinstance(data, str) else None
    path = os.path.join(scratch_dir(), 'c19.dlis')
    if os.path.exists(path):
        os.remove(path)
    status = 'ok'
    try:
        b.df.write(path, **kw)
    except Exception as e:  # noqa
        status = f"raised:{type(e).__name__}: {str(e)[:80]}"
    viol = []
    after = [_snap_array(a) for a in arrays]
    for i, (x, y) in enumerate(zip(before, after)):
        if x != y:
            what = 'contents' if x[5] != y[5] else 'metadata (dtype/shape/strides/flags)'
            viol.append((f"C19:array-changed:{what.split()[0]}", f"array #{i} {x[1]} {x[2]} {what} changed by the write "
                                                                 f"({status}) | {c}"))
    if dict_before is not None:
        if (list(data.keys()), [id(v) for v in data.values()]) != dict_before:
            viol.append(("C19:dict-changed", f"keys/values of the data dict changed ({status}) | {c}"))
    if h5_before is not None:
        if hashlib.sha256(open(data, 'rb').read()).hexdigest() != h5_before:
            viol.append(("C19:hdf5-changed", f"the HDF5 source file changed on disk ({status}) | {c}"))
    expect_ok = c['fail'] == 'none'
    if expect_ok and status != 'ok':
        tag = 'readonly' if c['layout'] == 'readonly' else 'other'
        viol.append((f"C19:valid-write-failed:{tag}", f"{status} | {c}"))
    if not expect_ok and status == 'ok':
        viol.append((f"C19:invalid-write-accepted:{c['fail']}", f"{c}"))
    return Outcome(f"{'ok' if status == 'ok' else 'raised'}:{c['src']}:{c['layout']}", viol, True,
                   digest=sha(open(path, 'rb').read()) if status == 'ok' else status[:30])
