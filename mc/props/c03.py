"""C03 — channel data round-trips bit-exactly, one numbered record per row."""
from __future__ import annotations

from mc import spec as S, model as M, rp66 as R
from mc.engine import Outcome, sha
from mc.schema import DTYPE_SIZES, norm_dtype

ID = 'C03'
ENGINE = 'E1 choice-point explorer: full product on the first channel, deviation-bounded elsewhere'
RULE = ("per (dtype, source kind) shard: full product of byte order x shape {scalar,(R,1),(R,2),(R,3),wider than a "
        "record} x layout {C,F,strided,read-only,view} on the first channel; rows, channel count, second/third channel "
        "attributes, cast, value-palette offset, input chunk, row window, record length and an earlier write of the same objects "
        "with data of another dtype / other values explored up to the deviation bound from the default; plus all sequences of 2..3 channels whose names and explicit / implicit data set names collide (each channel must get its own array); values are bit patterns (extremes, +-0, +-inf, quiet/signalling NaN payloads, denormals); "
        "non-trivial = file written and every row compared bit for bit")
ASSUMPTIONS = ["strict reader mc/rp66.py", "reference model mc/model.py", "numpy astype defines the result of a "
               "declared cast (float->int and narrowing int casts are outside the alphabet)"]

DTYPES = ['float64', 'float32', 'int32', 'uint8', 'int8', 'int16', 'uint16', 'uint32']
PAL = {
    'float64': [0x3FF0000000000000, 0x8000000000000000, 0x0000000000000000, 0x7FF0000000000000, 0xFFF0000000000000,
                0x7FF8000000000001, 0xFFF8000000000000, 0x7FF0000000000001, 0x0000000000000001, 0x000FFFFFFFFFFFFF,
                0x7FEFFFFFFFFFFFFF, 0xFFEFFFFFFFFFFFFF, 0x5555555555555555, 0xAAAAAAAAAAAAAAAA, 0x400921FB54442D18,
                0x0102030405060708],
    'float32': [0x3F800000, 0x80000000, 0x00000000, 0x7F800000, 0xFF800000, 0x7FC00001, 0xFFC00000, 0x7F800001,
                0x00000001, 0x007FFFFF, 0x7F7FFFFF, 0xFF7FFFFF, 0x55555555, 0xAAAAAAAA, 0x40490FDB, 0x01020304],
    'int8': [0x01, 0x80, 0x7F, 0xFF, 0x00, 0x55, 0xAA, 0x02],
    'uint8': [0x01, 0x80, 0x7F, 0xFF, 0x00, 0x55, 0xAA, 0x02],
    'int16': [0x0102, 0x8000, 0x7FFF, 0xFFFF, 0x0000, 0x5555, 0xAAAA, 0x00FF, 0xFF00],
    'uint16': [0x0102, 0x8000, 0x7FFF, 0xFFFF, 0x0000, 0x5555, 0xAAAA, 0x00FF, 0xFF00],
    'int32': [0x01020304, 0x80000000, 0x7FFFFFFF, 0xFFFFFFFF, 0, 0x55555555, 0xAAAAAAAA, 0x000000FF, 0xFF000000],
    'uint32': [0x01020304, 0x80000000, 0x7FFFFFFF, 0xFFFFFFFF, 0, 0x55555555, 0xAAAAAAAA, 0x000000FF, 0xFF000000],
}
CASTS = {'float64': [None, 'float32', 'float64', '>f4', '>f8'], 'float32': [None, 'float64', '>f8', '>f4'],
         'int8': [None, 'int16', 'float64', '>i2'], 'int16': [None, 'int32', 'float32', '>i4', '>i2'],
         'int32': [None, 'float64', '>f8', '>i4'], 'uint8': [None, 'uint16', 'int16', '>u2'],
         'uint16': [None, 'uint32', 'float64', '>u4', '>u2'], 'uint32': [None, 'float64', '>u4']}
SRC = ['inline', 'dict', 'struct', 'h5']


def shards(tier):
    return [{'dtype': d, 'src': s, 'tier': tier} for d in DTYPES for s in SRC] + \
        [{'dtype': 'uint16', 'src': 'dict', 'many_rows': n} for n in (130, 16390)] + \
        [{'dtype': 'uint16', 'src': 'inline', 'dsnames': first} for first in range(len(DSN_ALPHABET))]


def bound(tier, shard):
    return 1 if tier == 'quick' else 2


def bounds(tier):
    return {'deviation_bound': 1 if tier == 'quick' else 2, 'rows': [3, 1, 2, 5], 'channels_per_frame': '1..3',
            'vrl': [8192, 64, 32], 'input_chunk': ['None', 1, 2, 'R', 'R+1']}


def _channel(ctx, i, dtype, src, rows, vrl, first):
    bo = ctx.choose(f'bo{i}', ['<', '>'], free=first)
    shape = ctx.choose(f'shape{i}', ['s', 'w1', 'w2', 'w3', 'wide'], free=first)
    layouts = ['C', 'F', 'strided', 'readonly', 'view'] if src in ('inline', 'dict') else ['C']
    layout = ctx.choose(f'layout{i}', layouts, free=first)
    # the cast given at creation, assigned afterwards, or first another one at creation and then this one (one choice
    # point, so that every combination is a single deviation from the default)
    cast, cast_route = ctx.choose(f'cast{i}', [(None, 'kw')] + [(x, r) for x in CASTS[dtype][1:] for r in ('kw', 'later', 'replaced')])
    pal = ctx.choose(f'pal{i}', [0, 5, 11])
    size = DTYPE_SIZES[dtype]
    w = {'s': None, 'w1': 1, 'w2': 2, 'w3': 3, 'wide': (vrl - 8) // size + 1}[shape]
    n = rows * (w or 1)
    p = PAL[dtype]
    pat = [p[(pal + 3 * i + k) % len(p)] for k in range(n)]
    return {'dtype': dtype, 'bo': bo, 'shape': [rows] if w is None else [rows, w], 'pat': pat, 'layout': layout,
            'cast': cast, 'cast_route': cast_route}


# channel name x explicit data set name (None = chosen by the library: NAME, NAME__1, ...)
DSN_ALPHABET = [(n, d) for n in ('A', 'B') for d in (None, 'A', 'B', 'A__1')]


def dsnames(ctx, shard):
    """2..3 channels whose names and (explicit or implicit) data set names collide in every order; each channel has its
    own array and its own frame; every channel's rows must be its own array's."""
    seq = [DSN_ALPHABET[shard['dsnames']], ctx.choose('second', DSN_ALPHABET, free=True)]
    third = ctx.choose('third', [None] + DSN_ALPHABET, free=True)
    if third:
        seq.append(third)
    src = ctx.choose('src', ['inline', 'dict'], free=True)
    ops = [S.op_lf(), S.op_origin()]
    taken, dup = [], False
    data = {}
    for i, (name, dn) in enumerate(seq):
        arr = S.arr_spec('uint16', [2], [1000 * (i + 1), 1000 * (i + 1) + 1])
        real = dn
        if dn is None:
            real, k = name, 0
            while real in taken:
                k += 1
                real = f'{name}__{k}'
        elif dn in taken:
            dup = True                  # an explicit name that is already in use: documented to be refused
        taken.append(real)
        kw = {'dataset_name': dn} if dn else {}
        if src == 'inline':
            kw['data'] = arr
        else:
            data[real] = arr
        ops.append(S.op_add('channel', f'C{i}', name, **kw))
        ops.append(S.op_add('frame', f'F{i}', f'FRAME-{i}', channels=[{'$ref': f'C{i}'}]))
        if dup:
            break
    sp = {'sul': {'max_record_length': 8192}, 'ops': ops, 'write': {}}
    if src == 'dict':
        sp['write']['data'] = {'$datadict': data}
    res = S.run_spec(sp)
    raised = res['failed_at'] is not None or res['write'] != 'ok'
    if dup:
        viol = [] if raised else [("C03:dsnames:duplicate-explicit-name-accepted", f"{seq}")]
        return Outcome('dsnames:rejected' if raised else 'dsnames:accepted-duplicate', viol, True, digest=str(raised))
    if raised:
        why = res['status'][-1] if res['failed_at'] is not None else res['write']
        return Outcome('dsnames:raised', [("C03:dsnames:valid-rejected", f"{why} | {seq} {src}")], True, digest=why[:40])
    viol = []
    try:
        lfs = R.split_logical_files(R.parse_physical(res['data']))
        m = M.Model(sp)
        for code, d in M.check_rows(m, m.lfs[0], lfs[0]):
            viol.append((f"C03:dsnames:{code}", f"{d[:200]} | channels (name, data set name) = {seq} source={src}"))
    except R.FormatError as e:
        viol.append((f"C03:unparsable:{e.code}", f"{e} | {seq}"))
    return Outcome('dsnames:ok', viol, True, digest=sha(res['data']))


def body(ctx, shard):
    if 'dsnames' in shard:
        return dsnames(ctx, shard)
    if shard.get('many_rows'):
        # frame numbers across the 1/2/4-byte UVARI boundaries (127/128, 16383/16384): one row per number
        n = shard['many_rows']
        chunk = ctx.choose('chunk', [None, 1000, 127])
        ch = {'dtype': 'uint16', 'bo': '<', 'shape': [n], 'pat': [k % 65536 for k in range(n)], 'layout': 'C', 'cast': None}
        return run_built({'src': 'dict', 'vrl': 8192, 'chans': [ch], 'chunk': chunk, 'earlier': 'none'})
    src = shard['src']
    rows = ctx.choose('rows', [3, 1, 2, 5])
    nch = ctx.choose('nch', [1, 2, 3])
    vrl = ctx.choose('vrl', [8192, 64, 32])
    chans = [_channel(ctx, 0, shard['dtype'], src, rows, vrl, True)]
    for i in range(1, nch):
        dt = ctx.choose(f'dtype{i}', DTYPES)
        chans.append(_channel(ctx, i, dt, src, rows, vrl, False))
    chunk = ctx.choose('chunk', [None, 1, 2, 'R', 'R+1'])
    chunk = rows if chunk == 'R' else rows + 1 if chunk == 'R+1' else chunk
    # the same objects may have been written before with data of another dtype / other values (dict source only)
    earlier = ctx.choose('earlier-write', ['none', 'other-dtype', 'same-dtype-other-values']) if src == 'dict' else 'none'
    # a row window: exactly the rows inside it, numbered from 1 (windows in depth are C11's business)
    # (free: the window is crossed with every deviation, e.g. window x input chunk leaving a remainder)
    win = ctx.choose('window', ['all', 'from-1', 'to-last-but-one', 'middle'], free=True)
    lo, hi = {'all': (0, None), 'from-1': (1, None), 'to-last-but-one': (0, rows - 1), 'middle': (1, rows - 1)}[win]
    if (rows if hi is None else hi) - lo < 1:
        lo, hi = 0, None
    return run_built({'src': src, 'vrl': vrl, 'chans': chans, 'chunk': chunk, 'earlier': earlier, 'win': [lo, hi]})


def make_spec(c):
    sp = {'sul': {'max_record_length': c['vrl']}, 'ops': [S.op_lf(), S.op_origin()], 'write': {}}
    if c['chunk'] is not None:
        sp['write']['input_chunk_size'] = c['chunk']
    lo, hi = c.get('win') or (0, None)
    if lo:
        sp['write']['from_idx'] = lo
    if hi is not None:
        sp['write']['to_idx'] = hi
    refs = []
    data = {}
    for i, ch in enumerate(c['chans']):
        arr = S.arr_spec(ch['dtype'], ch['shape'], ch['pat'], ch['bo'], ch['layout'])
        kw = {}
        route = ch.get('cast_route', 'kw')
        if ch['cast'] and route == 'kw':
            kw['cast_dtype'] = {'$dtype': ch['cast']}
        elif ch['cast'] and route == 'replaced':
            kw['cast_dtype'] = {'$dtype': 'float32' if norm_dtype(ch['cast']) != 'float32' else 'float64'}
        if c['src'] == 'inline':
            kw['data'] = arr
        else:
            data[f'CH{i}'] = arr
        sp['ops'].append(S.op_add('channel', f'C{i}', f'CH{i}', **kw))
        if ch['cast'] and route != 'kw':
            sp['ops'].append({'op': 'cast', 'h': f'C{i}', 'value': {'$dtype': ch['cast']}})
        refs.append({'$ref': f'C{i}'})
    sp['ops'].append(S.op_add('frame', 'F0', 'FRAME', channels=refs))
    if c['src'] == 'dict':
        sp['write']['data'] = {'$datadict': data}
    elif c['src'] == 'struct':
        sp['write']['data'] = {'$struct': {'fields': [[k, v] for k, v in data.items()]}}
    elif c['src'] == 'h5':
        sp['write']['data'] = {'$h5': {('/' + k): v for k, v in data.items()}}
    return sp


OTHER_DTYPE = {'float64': 'float32', 'float32': 'float64', 'int32': 'uint8', 'uint8': 'int32', 'int8': 'uint16',
               'int16': 'uint32', 'uint16': 'int8', 'uint32': 'int16'}


def _earlier_write(c, sp):
    """Build the objects, write them once with other data, then write the real data; returns a run_spec-like result."""
    import os
    from mc.engine import scratch_dir
    b = S.build(sp)
    res = {'status': b.status, 'failed_at': b.failed_at, 'write': 'skipped', 'data': None}
    if b.failed_at is not None:
        return res
    first = {}
    for i, ch in enumerate(c['chans']):
        dt = OTHER_DTYPE[ch['dtype']] if c['earlier'] == 'other-dtype' else ch['dtype']
        n = 1
        for k in ch['shape']:
            n *= k
        p = PAL[dt]
        first[f'CH{i}'] = S.make_array(S.arr_spec(dt, ch['shape'], [p[(k + 1) % len(p)] for k in range(n)]))
    path = os.path.join(scratch_dir(), 'c03-first.dlis')
    kw = S.write_kwargs(sp, b)
    try:
        b.df.write(path, **dict(kw, data=first))
    except Exception as e:  # noqa
        res['write'] = f"raised:first-write:{type(e).__name__}: {e}"
        return res
    path2 = os.path.join(scratch_dir(), 'out.dlis')
    try:
        b.df.write(path2, **kw)
        res['write'] = 'ok'
        res['data'] = open(path2, 'rb').read()
    except Exception as e:  # noqa
        res['write'] = f"raised:{type(e).__name__}: {e}"
    return res


def run_built(c):
    sp = make_spec(c)
    res = _earlier_write(c, sp) if c.get('earlier', 'none') != 'none' else S.run_spec(sp)
    viol = []
    if res['failed_at'] is not None:
        viol.append(("C03:build-raised", f"{res['status'][-1]} | {c}"))
        return Outcome('build-raised', viol, False)
    if res['write'] != 'ok':
        viol.append((f"C03:write-raised:{res['write'].split(':')[1]}", f"{res['write']} | {c}"))
        return Outcome('write-raised', viol, False, digest=res['write'][:40])
    try:
        lfs = R.split_logical_files(R.parse_physical(res['data']))
        m = M.Model(sp)
        for code, d in M.check_rows(m, m.lfs[0], lfs[0]):
            sig = f"C03:{code}"
            if code == 'row_bytes':
                sig += ':' + _classify(c, d)
            if c.get('earlier', 'none') != 'none':
                sig += ':after-earlier-write'
            viol.append((sig, f"{d[:300]} | {_short(c)}"))
    except R.FormatError as e:
        viol.append((f"C03:unparsable:{e.code}", f"{e} | {_short(c)}"))
    kinds = '+'.join(sorted({('2d' if len(ch['shape']) > 1 else '1d') + ch['bo'] for ch in c['chans']}))
    return Outcome(f"ok:{kinds}", viol, True, digest=sha(res['data']))


def _short(c):
    return {'src': c['src'], 'vrl': c['vrl'], 'chunk': c['chunk'], 'earlier': c.get('earlier'), 'win': c.get('win'),
            'chans': [{k: (v if k != 'pat' else f'<{len(v)} patterns>') for k, v in ch.items()} for ch in c['chans']]}


def _classify(c, detail):
    """Name the input class of a row mismatch so that distinct defects get distinct signatures."""
    tags = set()
    for ch in c['chans']:
        if ch.get('cast') and ch['cast'].startswith('>'):
            tags.add('byte-ordered-cast')
        if ch['bo'] == '>' and len(ch['shape']) > 1 and DTYPE_SIZES[ch['dtype']] > 1:
            tags.add('bigendian-2d')
        elif ch['bo'] == '>' and DTYPE_SIZES[ch['dtype']] > 1:
            tags.add('bigendian-1d')
    return '+'.join(sorted(tags)) or 'native'
