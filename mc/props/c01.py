"""C01 — physical layout: label, visible records and segments are well-formed."""
from mc import wl
from mc.engine import Outcome

ID = 'C01'
ENGINE = 'E1 full product (writer level) + end-to-end lattice'
RULE = ("writer-level: every vrl in the tier's list x every body length in W(cap) x {EFLR,IFLR} x output chunk "
        "{vrl, 65536}, plus all ordered pairs of a 19-value boundary window and 27 triples for small/special vrl; "
        "label: sequence numbers x identifier lengths; end-to-end: four specifications (minimal, two frames, no-format, "
        "rich with 13 object kinds) written through DLISFile.write at every vrl of the list x input chunk x output "
        "chunk, with label / header given as ready-made objects, the label re-configured afterwards, a longer / shorter file already at the target path; set identifiers with blanks at either end; a case is non-trivial when the write succeeded and the strict "
        "framing parser ran over the bytes; cases are distinct by construction")
ASSUMPTIONS = ["strict reader mc/rp66.py (self-tested at start) is the trusted oracle",
               "bodies longer than 3*cap+14 are not enumerated (splitting loop is uniform beyond the 2nd iteration)"]
MIN_DISTINCT_OUTCOMES = 2


def shards(tier):
    return wl.wl_shards(tier) + [{'kind': 'label'}] + wl.e2e_shards(tier)


def bounds(tier):
    v = wl.vrl_list(tier)
    return {'vrl_count': len(v), 'vrl_min': v[0], 'vrl_max': v[-1], 'window': 'W(cap) = 1..60 U k*cap+-14, k=1..3'}


def cases(shard, tier):
    if shard['kind'] == 'wl':
        yield from wl.wl_cases(shard, tier)
    elif shard['kind'] == 'e2e':
        yield from wl.e2e_cases(shard, tier)
    elif shard['kind'] == 'label':
        for seq in (1, 9, 10, 999, 9999, 10000):
            for n in (1, 2, 59, 60, 61):
                for vrl in (32, 8192, 16384):
                    yield {'vrl': vrl, 'recs': [['E3', 30, 0]], 'ocs': 2 ** 16, 'sul': {'seq': seq, 'setid': 'S' * n},
                           'label': True}
        # identifiers with blanks at either end or inside, lower case, punctuation (the field is the configured text
        # left-justified in 60 characters, whatever it contains)
        for setid in ('WELL 7 STORAGE SET ', ' LEADING', 'TWO  BLANKS  ', ' ', 'X' * 58 + '  ', 'x' * 59 + ' ', 'a.b/c:d', '-', '0042'):
            for vrl in (32, 8192):
                yield {'vrl': vrl, 'recs': [['E3', 30, 0]], 'ocs': 2 ** 16, 'sul': {'seq': 1, 'setid': setid}, 'label': True}


def run_case(case):
    if 'e2e' in case:
        res = wl.run_e2e(case)
        if 'exc' in res:
            return Outcome('e2e-raised', [("C01:e2e:valid-spec-raised", f"{res['exc']} | {case}")], False, digest=res['exc'][:40])
        bad = wl.check_layout(res['data'], case['vrl'], 1, 'E2E-SET')
        viol = [(f"C01:e2e:{bad[0]}", f"{bad[1]} | {case}")] if bad else []
        return Outcome(f"ok:e2e:{case['e2e']}", viol, True, digest=wl.digest_of(res))
    res = wl.run_writer(case)
    if 'exc' in res:
        cls = 'raised:' + res['exc'].split(':')[0]
        return Outcome(cls, [], nontrivial=False, digest=wl.digest_of(res))
    sulp = case.get('sul') or {}
    bad = wl.check_layout(res['data'], case['vrl'], sulp.get('seq', 1), sulp.get('setid', 'SET-ID'))
    viol = []
    if bad:
        viol.append((f"C01:wl:{bad[0]}", f"{bad[1]} | case={case}"))
    if res['total'] != len(res['data']):
        viol.append(("C01:wl:reported_total", f"writer reports {res['total']} bytes, file has {len(res['data'])}"))
    nseg = 'multi' if any(L > case['vrl'] - 8 for _, L, _ in case['recs']) else 'single'
    return Outcome(f"ok:{nseg}", viol, nontrivial=True, digest=wl.digest_of(res))
