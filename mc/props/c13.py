"""C13 — frame index metadata is truthful for the rows written."""
from __future__ import annotations

import itertools
import os
import struct
from fractions import Fraction

from mc import spec as S, rp66 as R
from mc.engine import Outcome, sha, scratch_dir
from mc.schema import DTYPE_SIZES

ID = 'C13'
ENGINE = 'E1 full product x E2 histories (write; write)'
RULE = ("index dtype (8) x pattern {increasing, decreasing, constant, non-monotonic, within tolerance, outside "
        "tolerance, range-wide} x rows {1,2,5} x window x user-supplied {none, index_min, index_max, spacing, "
        "direction, zero values} (as keywords or through the setters after creation) x index type {none, BOREHOLE-DEPTH, non-standard} given at creation / assigned afterwards / assigned after a first index-less write; histories: a write after a write that was refused inside the frame set-up; second write of the same objects "
        "with another window / other data / other dtype; expectations by exact arithmetic on Fractions; SPACING of a "
        "nearly uniform index is the median of the differences (the documented rule); an index containing a NaN must claim neither SPACING nor DIRECTION; "
        "tolerance-threshold cases are not generated; non-trivial = file written and FRAME attributes compared")
ASSUMPTIONS = ["strict reader mc/rp66.py", "uniformity rule = documented (1 - d/median)^2 < 0.001",
               "float patterns are chosen so that all differences are exactly representable"]

DTYPES = ['float64', 'float32', 'int32', 'int16', 'int8', 'uint8', 'uint16', 'uint32']
PATTERNS = ['inc', 'dec', 'const', 'nonmono', 'tol', 'outside', 'wide', 'skew-out', 'skew-in', 'skew-out-dec']
USER = ['none', 'index_min', 'index_max', 'spacing', 'direction', 'index_min=0', 'index_max=0', 'spacing=0']
ITYPE = [None, 'BOREHOLE-DEPTH', 'MY-INDEX']


def values(dtype, pattern, n):
    isf = dtype.startswith('float')
    if pattern == 'inc':
        v = [10 + 2 * i for i in range(n)]
    elif pattern == 'dec':
        v = [40 - 3 * i for i in range(n)]
    elif pattern == 'const':
        v = [7] * n
    elif pattern == 'nonmono':
        v = [1, 5, 3, 9, 2, 8][:n]
    elif pattern == 'tol':
        v = [1.0, 2.0, 3.0078125, 4.0, 5.0, 6.0][:n] if isf else None      # 3.0078125 = 3 + 2^-7, exact in float32
    elif pattern == 'skew-out':
        # regular step 25 with one step of 26 (4 % off): outside the tolerance around the median of ALL differences
        v = [0, 25, 50, 75, 100, 126][:n] if n >= 5 else None
        if v and n == 5:
            v = [0, 25, 50, 75, 101]
    elif pattern == 'skew-out-dec':
        v = [126, 101, 76, 51, 26, 0][:n] if n >= 5 else None
        if v and n == 5:
            v = [126, 100, 75, 50, 25]
    elif pattern == 'skew-in':
        # regular step 40 with one step of 41 (2.5 % off): inside the tolerance; the spacing is the median, 40
        v = [0, 40, 80, 121, 161, 201][:n] if n >= 5 else None
        if v and dtype == 'int8':
            v = None
    elif pattern == 'outside':
        v = [1, 2, 4, 5, 7, 8][:n]
    elif pattern == 'wide':
        if isf:
            v = None        # float differences that overflow are not exactly representable: outside the alphabet
        else:
            bits = DTYPE_SIZES[dtype] * 8
            lo, hi = (0, 2 ** bits - 1) if dtype.startswith('u') else (-2 ** (bits - 1), 2 ** (bits - 1) - 1)
            v = [lo, hi, lo + 1, hi - 1, lo + 2, hi - 2][:n]
    if v is None:
        return None
    return [float(x) for x in v] if isf else v


def to_pat(dtype, vals):
    size = DTYPE_SIZES[dtype]
    out = []
    for x in vals:
        if dtype == 'float64':
            out.append(int.from_bytes(struct.pack('>d', x), 'big'))
        elif dtype == 'float32':
            out.append(int.from_bytes(struct.pack('>f', x), 'big'))
        else:
            out.append(x % (1 << (8 * size)))
    return out


def exact(dtype, vals):
    if dtype == 'float32':
        return [Fraction(struct.unpack('>f', struct.pack('>f', x))[0]) for x in vals]
    return [Fraction(x) for x in vals]


def shards(tier):
    return [{'dtype': d, 'pattern': p} for d in DTYPES for p in PATTERNS]


def bounds(tier):
    return {'rows': [1, 2, 5] if tier == 'quick' else [1, 2, 3, 5, 6], 'windows': 'all 0<=from<to<=R for R<=2; {(0,R),(1,R),(0,R-1),(1,3),(2,3)} for R=5',
            'second_write': ['none', 'window', 'data', 'dtype']}


def cases(shard, tier):
    for n in ((1, 2, 5) if tier == 'quick' else (1, 2, 3, 5, 6)):
        if values(shard['dtype'], shard['pattern'], n) is None:
            continue
        wins = [(0, None)]
        if n == 2:
            wins += [(0, 1), (1, 2)]
        if n == 5:
            wins += [(1, None), (0, 4), (1, 3), (2, 3)]
        if tier != 'quick' and n >= 3:
            wins = [(0, None)] + [(f, t) for f in range(n) for t in range(f + 1, n + 1) if (f, t) != (0, n)]
        for (f, t), user, it in itertools.product(wins, USER, ITYPE):
            seconds = ['none']
            if user == 'none' and (f, t) == (0, None) and n >= 5:
                seconds += ['window', 'data', 'dtype']
            for second in seconds:
                yield dict(shard, n=n, frm=f, to=t, user=user, itype=it, second=second)
            if it is not None and user == 'none' and shard['dtype'].startswith('float') and n >= 2 and (f, t) == (0, None):
                # a NaN among the index values written: the index is not monotonic, so no DIRECTION and no SPACING may be
                # claimed (nothing is demanded of INDEX-MIN / INDEX-MAX)
                for pos in sorted({0, n // 2, n - 1}):
                    yield dict(shard, n=n, frm=f, to=t, user=user, itype=it, second='none', nan_at=pos)
            if it is None and user in ('none', 'index_min'):
                # index-less frame whose first channel holds several samples per row: INDEX-MAX counts rows, not samples
                yield dict(shard, n=n, frm=f, to=t, user=user, itype=it, second='none', first_width=3)
            if it is not None and user == 'none' and n >= 3 and (f, t) == (0, None):
                # the user pins INDEX-MAX to exactly the value the previous write derived, then writes a window
                yield dict(shard, n=n, frm=f, to=t, user=user, itype=it, second='pin-derived-max')
                if shard['dtype'].startswith('float'):
                    # the first write's index data held a NaN; the second write has the repaired data
                    yield dict(shard, n=n, frm=f, to=t, user=user, itype=it, second='after-nan-data')
            if it is not None and user == 'none' and n >= 2:
                # a first write is refused inside the frame's set-up (2-D index data with other values), then the real one
                yield dict(shard, n=n, frm=f, to=t, user=user, itype=it, second='after-refused-2d-index')
            if user != 'none':
                # the user's value assigned through the public setter after the frame was created
                yield dict(shard, n=n, frm=f, to=t, user=user, itype=it, second='none', user_route='later')
            if it is not None and user in ('none', 'index_max', 'spacing=0'):
                # the index type is assigned through the public setter after the frame was created ...
                yield dict(shard, n=n, frm=f, to=t, user=user, itype=it, second='none', itype_route='later')
                # ... or only after a first write of the (then index-less) frame
                yield dict(shard, n=n, frm=f, to=t, user=user, itype=it, second='itype-added', itype_route='after-write')


USER_VALUES = {'index_min': -7.5, 'index_max': 123456.0, 'spacing': 0.25, 'direction': 'DECREASING',
               'index_min=0': 0, 'index_max=0': 0.0, 'spacing=0': 0}


def expectation(dtype, vals, frm, to, itype, user):
    """Expected FRAME attributes for the rows written. Returns dict label -> ('eq', Fraction) | ('range', lo, hi) |
    ('absent',) | ('str', s) | ('any',)."""
    ex = exact(dtype, vals)[frm:to]
    exp = {}
    if itype is None:
        exp['INDEX-MIN'] = ('eq', Fraction(1))
        exp['INDEX-MAX'] = ('eq', Fraction(len(ex)))
        exp['SPACING'] = ('any',)
        exp['DIRECTION'] = ('any',)
    else:
        exp['INDEX-MIN'] = ('eq', min(ex))
        exp['INDEX-MAX'] = ('eq', max(ex))
        d = [b - a for a, b in zip(ex, ex[1:])]
        if not d:
            exp['SPACING'] = ('absent',)
            exp['DIRECTION'] = ('absent',)
        elif len(set(d)) == 1:
            exp['SPACING'] = ('eq', d[0])
            exp['DIRECTION'] = ('any',)
        else:
            sd = sorted(d)
            m = sd[len(sd) // 2] if len(sd) % 2 else (sd[len(sd) // 2 - 1] + sd[len(sd) // 2]) / 2
            if m != 0 and all((1 - x / m) ** 2 < Fraction(1, 1000) for x in d):
                exp['SPACING'] = ('median', m)
                exp['DIRECTION'] = ('any',)
            else:
                exp['SPACING'] = ('absent',)
                if all(x >= 0 for x in d) and any(x > 0 for x in d):
                    exp['DIRECTION'] = ('str', 'INCREASING')
                elif all(x <= 0 for x in d) and any(x < 0 for x in d):
                    exp['DIRECTION'] = ('str', 'DECREASING')
                else:
                    exp['DIRECTION'] = ('absent',)
    if user != 'none':
        label = user.split('=')[0].upper().replace('_', '-')
        uv = USER_VALUES[user]
        exp[label] = ('str', uv) if isinstance(uv, str) else ('eq', Fraction(uv))
        if user.startswith('spacing'):
            exp['DIRECTION'] = ('any',)
        if user == 'direction' and exp['SPACING'][0] != 'absent':
            pass
    return exp


def compare(exp, fo):
    errs = []
    for label, e in exp.items():
        a = fo.get(label)
        vals = None if (a is None or a.absent) else a.e_values
        if e[0] == 'any':
            continue
        if e[0] == 'absent':
            if vals:
                errs.append((f'{label}:present-unexpected', f"{label} = {vals} but should be absent"))
            continue
        if not vals or len(vals) != 1:
            errs.append((f'{label}:missing', f"{label} missing (file has {vals}), expected {e}"))
            continue
        v = vals[0]
        if e[0] == 'str':
            if v != e[1]:
                errs.append((f'{label}:wrong', f"{label} = {v!r}, expected {e[1]!r}"))
            continue
        if isinstance(v, float) and v != v:
            errs.append((f'{label}:nan', f"{label} = NaN, expected {e[1:]}"))
            continue
        try:
            fv = Fraction(v)
        except (TypeError, ValueError, OverflowError):
            errs.append((f'{label}:wrong', f"{label} = {v!r}, expected {e[1:]}"))
            continue
        if e[0] == 'eq' and fv != e[1]:
            errs.append((f'{label}:wrong', f"{label} = {v!r}, expected {float(e[1])!r}"))
        if e[0] == 'median' and abs(fv - e[1]) > abs(e[1]) * Fraction(1, 10 ** 9):
            errs.append((f'{label}:wrong:not-the-median', f"{label} = {v!r}, expected the median difference {float(e[1])!r}"))
    return errs


def run_case(c):
    dtype, n = c['dtype'], c['n']
    vals = values(dtype, c['pattern'], n)
    arr = S.arr_spec(dtype, [n], to_pat(dtype, vals))
    if c.get('nan_at') is not None:
        pat_nan = list(to_pat(dtype, vals))
        pat_nan[c['nan_at']] = 0x7FF8000000000000 if dtype == 'float64' else 0x7FC00000
        arr = S.arr_spec(dtype, [n], pat_nan)
    fw = c.get('first_width')
    if fw:
        # every row holds fw samples (the row's index value first)
        wide = []
        for p_ in to_pat(dtype, vals):
            wide += [p_] * fw
        arr = S.arr_spec(dtype, [n, fw], wide)
    fkw = {}
    route = c.get('itype_route', 'kw')
    if c['itype'] and route == 'kw':
        fkw['index_type'] = c['itype']
    user_later = None
    if c['user'] != 'none':
        if c.get('user_route') == 'later':
            user_later = {'op': 'set', 'h': 'F0', 'attr': c['user'].split('=')[0], 'part': 'value', 'value': USER_VALUES[c['user']]}
        else:
            fkw[c['user'].split('=')[0]] = USER_VALUES[c['user']]
    sp = {'sul': {'max_record_length': 8192},
          'ops': [S.op_lf(), S.op_origin(), S.op_add('channel', 'C0', 'INDEX', **({'units': 'm'} if n % 2 else {})),
                  S.op_add('channel', 'C1', 'VALUE'),
                  S.op_add('frame', 'F0', 'FRAME', channels=[{'$ref': 'C0'}, {'$ref': 'C1'}], **fkw)]}
    late = {'op': 'set', 'h': 'F0', 'attr': 'index_type', 'part': 'value', 'value': c['itype']}
    if route == 'later':
        sp['ops'].append(late)
    if user_later:
        sp['ops'].append(user_later)
    other = S.arr_spec('uint8', [n], list(range(n)))
    b = S.build(sp)
    viol = []
    if b.failed_at is not None:
        return Outcome('build-raised', [("C13:build-raised", f"{b.status[-1]} | {c}")], False)
    path = os.path.join(scratch_dir(), 'c13.dlis')

    def write(arr_, frm, to):
        if os.path.exists(path):
            os.remove(path)
        kw = {'output_chunk_size': 2 ** 16, 'data': {'INDEX': S.make_array(arr_), 'VALUE': S.make_array(other)}}
        if frm:
            kw['from_idx'] = frm
        if to is not None:
            kw['to_idx'] = to
        try:
            b.df.write(path, **kw)
        except Exception as e:  # noqa
            return None, f"raised:{type(e).__name__}: {e}"
        return open(path, 'rb').read(), 'ok'

    if c['second'] == 'after-refused-2d-index':
        import numpy as np
        bad = {'INDEX': np.arange(9000, 9000 + 2 * n, dtype=np.float64).reshape(n, 2), 'VALUE': S.make_array(other)}
        try:
            b.df.write(path, output_chunk_size=2 ** 16, data=bad)
            return Outcome('harness', [("C13:harness:2d-index-accepted", f"{c}")], True)
        except Exception:  # noqa
            pass
    if c['second'] == 'after-nan-data':
        nan_pat = list(to_pat(dtype, vals))
        nan_pat[0] = 0x7FF8000000000000 if dtype == 'float64' else 0x7FC00000
        write(S.arr_spec(dtype, [n], nan_pat), 0, None)          # whatever this gives, the next write has clean data
    pinned = None
    data, st = write(arr, c['frm'], c['to'])
    exp_vals, exp_dtype, frm, to = vals, dtype, c['frm'], c['to']
    tag = {'after-refused-2d-index': 'after-refused-write', 'after-nan-data': 'after-nan-write'}.get(c['second'], 'first')
    if st == 'ok' and c['second'] not in ('none', 'after-refused-2d-index', 'after-nan-data'):
        tag = 'second-' + c['second']
        if c['second'] == 'window':
            frm, to = 1, 3
            data, st = write(arr, frm, to)
        elif c['second'] == 'itype-added':
            st_op = S.apply_op(b, late)
            if st_op != 'ok':
                return Outcome('harness', [("C13:harness:index-type-assignment-failed", f"{st_op} | {c}")], False)
            data, st = write(arr, frm, to)
        elif c['second'] == 'pin-derived-max':
            from fractions import Fraction as _F
            mx = max(exact(dtype, vals))
            pin = float(mx)
            st_op = S.apply_op(b, {'op': 'set', 'h': 'F0', 'attr': 'index_max', 'part': 'value', 'value': pin})
            if st_op != 'ok' or _F(pin) != mx:
                return Outcome('n/a', [], False)
            frm, to = 0, 2
            data, st = write(arr, frm, to)
            pinned = mx
        elif c['second'] == 'data':
            bits = 8 * DTYPE_SIZES[dtype]
            hi = float('inf') if dtype.startswith('f') else (2 ** bits - 1 if dtype.startswith('u') else 2 ** (bits - 1) - 1)
            exp_vals = [x + 100 for x in vals] if max(vals) + 100 <= hi else [x // 2 for x in vals[::-1]]
            data, st = write(S.arr_spec(dtype, [n], to_pat(dtype, exp_vals)), frm, to)
        elif c['second'] == 'dtype':
            exp_dtype = 'float64' if dtype != 'float64' else 'int32'
            exp_vals = [float(i * 3) for i in range(n)] if exp_dtype == 'float64' else [i * 3 for i in range(n)]
            data, st = write(S.arr_spec(exp_dtype, [n], to_pat(exp_dtype, exp_vals)), frm, to)
    if st != 'ok':
        viol.append((f"C13:{tag}:write-raised", f"{st} | {c}"))
        return Outcome('write-raised', viol, True, digest=st[:40])
    try:
        lf = R.split_logical_files(R.parse_physical(data))[0]
        fo = lf.objects('FRAME')[0]
        exp = expectation(exp_dtype, exp_vals, frm, to if to is not None else len(exp_vals), c['itype'], c['user'])
        if pinned is not None:
            exp['INDEX-MAX'] = ('eq', pinned)           # assigned by the user between the writes
        if c.get('nan_at') is not None:
            exp = {'SPACING': ('absent',), 'DIRECTION': ('absent',), 'INDEX-MIN': ('any',), 'INDEX-MAX': ('any',)}
        for code, d in compare(exp, fo):
            cls = _classify(c, code)
            viol.append((f"C13:{tag}:{code}{cls}", f"{d} | {c} values={exp_vals[:5]}"))
        # the rows themselves must be those of the data passed to this write, in the declared representation
        hi = to if to is not None else len(exp_vals)
        pats_ = list(to_pat(exp_dtype, exp_vals))
        if c.get('nan_at') is not None:
            pats_ = pat_nan
        want_rows = [int(p).to_bytes(DTYPE_SIZES[exp_dtype], 'big') * (c.get('first_width') or 1) + bytes([k])
                     for k, p in list(enumerate(pats_))[frm:hi]]
        got_rows = []
        for _, r, _s in lf.records:
            if not r.is_eflr and r.type == 0:
                ref, pos = R.decode_obname(r.body, 0)
                _n, pos = R.decode_uvari(r.body, pos)
                got_rows.append(r.body[pos:])
        if got_rows != want_rows:
            viol.append((f"C13:{tag}:rows-differ", f"rows {[x.hex() for x in got_rows][:3]} != "
                                                   f"{[x.hex() for x in want_rows][:3]} | {c}"))
        if c['second'] == 'dtype':
            # the channel's representation code must follow the data actually written
            co = [o for o in lf.objects('CHANNEL') if o.name.name == 'INDEX'][0]
            rc = R.attr_values(co, 'REPRESENTATION-CODE')
            from mc.schema import DTYPE_CODES
            if rc != [DTYPE_CODES[exp_dtype]]:
                viol.append((f"C13:{tag}:repr-code-stale", f"INDEX REPRESENTATION-CODE {rc} after rewriting with {exp_dtype} data | {c}"))
    except R.FormatError as e:
        viol.append((f"C13:{tag}:unparsable:{e.code}", f"{e} | {c}"))
    return Outcome(f"ok:{tag}:{'indexed' if c['itype'] else 'rownum'}", viol, True, digest=sha(data))


def _classify(c, code):
    """Input class that distinguishes root causes (kept coarse on purpose)."""
    rows = (c['to'] if c['to'] is not None else c['n']) - c['frm']
    if c['second'] != 'none':
        return ''
    if rows == 1 and c['itype']:
        return ':single-row'
    if c['dtype'].startswith('u') and c['pattern'] in ('dec', 'nonmono', 'wide'):
        return ':unsigned-negative-diff'
    if c['pattern'] == 'wide':
        return ':diff-overflows-dtype'
    return ''
