"""C02 — segmentation is lossless, ordered and correctly bracketed."""
from mc import wl
from mc.engine import Outcome

ID = 'C02'
ENGINE = 'E1 full product (writer level) + end-to-end tap'
RULE = ("same writer-level product as C01 with position-dependent bodies (tails 01, 0202, 0c*12 so that a pad-count "
        "mix-up changes the reassembly) and sequences of 1-3 records of different LogicalRecord classes; end-to-end: four specifications written through DLISFile.write at "
        "every vrl of the list, the bodies handed to the segmenter are learnt through a harness-installed wrapper of "
        "LogicalRecordBytes.make_segments and compared with the reassembled file (also over a longer / shorter file already at the target path); non-trivial "
        "= write succeeded and the reassembled record list was compared with the given one")
ASSUMPTIONS = ["strict reader mc/rp66.py (self-tested at start) is the trusted oracle"]


def shards(tier):
    return wl.wl_shards(tier) + wl.e2e_shards(tier)


def bounds(tier):
    v = wl.vrl_list(tier)
    return {'vrl_count': len(v), 'vrl_min': v[0], 'vrl_max': v[-1], 'records_per_sequence': '1..3'}


def cases(shard, tier):
    if shard['kind'] == 'e2e':
        yield from wl.e2e_cases(shard, tier)
    else:
        yield from wl.wl_cases(shard, tier)


def run_case(case):
    if 'e2e' in case:
        res = wl.run_e2e(case)
        if 'exc' in res:
            return Outcome('e2e-raised', [("C02:e2e:valid-spec-raised", f"{res['exc']} | {case}")], False, digest=res['exc'][:40])
        bad = wl.check_reassembly(res['data'], res['given'])
        viol = [(f"C02:e2e:{bad[0]}", f"{bad[1]} | {case}")] if bad else []
        return Outcome(f"ok:e2e:{case['e2e']}", viol, True, digest=wl.digest_of(res))
    res = wl.run_writer(case)
    if 'exc' in res:
        return Outcome('raised:' + res['exc'].split(':')[0], [], nontrivial=False, digest=wl.digest_of(res))
    bad = wl.check_reassembly(res['data'], res['given'])
    viol = [(f"C02:wl:{bad[0]}", f"{bad[1]} | case={case}")] if bad else []
    nseg = 'multi' if any(L > case['vrl'] - 8 for _, L, _ in case['recs']) else 'single'
    return Outcome(f"ok:{nseg}:{len(case['recs'])}", viol, nontrivial=True, digest=wl.digest_of(res))
