"""C12 — fail-closed: a write either raises or yields a faithful, well-formed file."""
from __future__ import annotations

import copy

from mc import spec as S, model as M, rp66 as R
from mc.engine import Outcome, sha
from mc.props import c04

ID = 'C12'
ENGINE = 'E1: one invalid or degenerate aspect x valid context, full product per family'
RULE = ("families: unequal row counts x chunk x source; unsupported dtypes x source; 3-D / 0-d data; missing dataset / "
        "file; object, set, unit, IDENT-value, set-identifier and header-id strings of 256 and 300 characters; non-ASCII "
        "characters in every text position; integers outside the range of every explicitly coded attribute, origin "
        "references, copy number 256; missing origin / channel / frame / logical file; wrong FILE-ID; equally named channels in one frame; over-long header fields assigned after construction; out-of-domain "
        "windows and chunk sizes; empty value lists; valid but unusual spellings (byte-ordered / class cast dtypes, "
        "big-endian / Fortran / read-only / strided arrays, tuples, numpy scalars, bool status ...) - each on top of two valid contexts (minimal and rich). Oracle: the "
        "classes the property lists as unrepresentable must raise; every other outcome is either an exception or a "
        "file that passes the strict parse, the component grammar and the full model comparison; non-trivial = every "
        "case (each carries an invalid or degenerate aspect)")
ASSUMPTIONS = ["strict reader mc/rp66.py", "reference model mc/model.py", "an exception of any type counts as 'raises'",
               "for out-of-domain windows a successful write must contain exactly rows [max(from,0), min(to,rows))"]

FAMILIES = ['rows', 'dtype', 'ndim', 'missing', 'longtext', 'nonascii', 'intrange', 'structure', 'window', 'empty',
            'unusual', 'fraction', 'badsource', 'mixed']


def shards(tier):
    ctxs = ('minimal', 'rich') if tier == 'quick' else ('minimal', 'rich', 'minimal@64', 'rich@64', 'rich@20')
    return [{'family': f, 'ctx': c} for f in FAMILIES for c in ctxs]


def bounds(tier):
    return {'families': FAMILIES, 'contexts': ['minimal', 'rich'] if tier == 'quick' else
            ['minimal', 'rich', 'minimal@64', 'rich@64', 'rich@20']}


def base(ctx, rows=3, with_data=True, src='inline'):
    vrl = 8192
    if '@' in ctx:
        ctx, v = ctx.split('@')
        vrl = int(v)
    a = S.arr_spec('float64', [rows], [0x3FF0000000000000 + (k << 48) for k in range(rows)])
    b = S.arr_spec('uint16', [rows, 2], list(range(1, 2 * rows + 1)))
    ops = [S.op_lf(), S.op_origin(),
           S.op_add('channel', 'CA', 'CHAN-A', **({'data': a} if src == 'inline' else {})),
           S.op_add('channel', 'CB', 'CHAN-B', **({'data': b} if src == 'inline' else {})),
           S.op_add('frame', 'F', 'FRAME', channels=[{'$ref': 'CA'}, {'$ref': 'CB'}])]
    if ctx == 'rich':
        ops += [S.op_add('zone', 'Z', 'ZONE', domain='TIME', maximum=12.5, minimum=1.0),
                S.op_add('parameter', 'P', 'PARAM', zones=[{'$ref': 'Z'}], values=[3.5]),
                S.op_add('axis', 'AX', 'AXIS', axis_id='AXID', coordinates=[1, 2]),
                S.op_add('no_format', 'N', 'NOFORMAT'),
                {'op': 'nfdata', 'lf': 'L0', 'nf': 'N', 'data': {'$bytes': '01020304'}}]
    sp = {'sul': {'max_record_length': vrl}, 'ops': ops, 'write': {}}
    if src != 'inline':
        d = {'CHAN-A': a, 'CHAN-B': b}
        sp['write']['data'] = ({'$datadict': d} if src == 'dict' else {'$struct': {'fields': [[k, v] for k, v in d.items()]}}
                               if src == 'struct' else {'$h5': {'/' + k: v for k, v in d.items()}})
    return sp


def _arr(dtype, shape, n=None):
    import functools
    import operator
    k = functools.reduce(operator.mul, shape, 1)
    return S.arr_spec(dtype, shape, [(i + 1) % 200 for i in range(k)])


LONG = {256: 'L' * 256, 300: 'M' * 300}


def cases(shard, tier):
    fam, ctx = shard['family'], shard['ctx']
    if fam == 'rows':
        for (ra, rb) in ((3, 2), (2, 3), (3, 1), (1, 3), (4, 3), (5, 3), (5, 4), (6, 2)):
            for chunk in (None, 1, 2, 3):
                for src in ('inline', 'dict', 'h5'):
                    for win in (None, (1, None), (2, None), (1, 3), (3, None), (2, 4)):
                        if win and (win[0] >= ra or (win[1] or ra) > ra):
                            continue
                        yield {'family': fam, 'ctx': ctx, 'ra': ra, 'rb': rb, 'chunk': chunk, 'src': src, 'win': win,
                               'must': True}
    elif fam == 'dtype':
        for dt in ('int64', 'uint64', 'float16', 'bool', 'complex64', 'object', '<U3'):
            for src in ('inline', 'dict', 'h5', 'struct'):
                if src in ('h5', 'struct') and dt in ('object', '<U3'):
                    continue
                for which in ('CA', 'CB'):
                    yield {'family': fam, 'ctx': ctx, 'dt': dt, 'src': src, 'which': which, 'must': True}
    elif fam == 'ndim':
        for shape in ([3, 2, 2], [3, 1, 1], []):
            for src in ('inline', 'dict', 'h5'):
                if shape == [] and src == 'h5':
                    continue
                yield {'family': fam, 'ctx': ctx, 'shape': shape, 'src': src, 'must': True}
    elif fam == 'missing':
        for how in ('dict-key', 'h5-dataset', 'h5-file', 'struct-field', 'no-data-at-all', 'dataset-name-mismatch',
                    # the only array ever offered under the channel's name came with an add_channel call that was refused
                    'only-a-refused-call-brought-data', 'only-a-refused-call-brought-data-named-set'):
            yield {'family': fam, 'ctx': ctx, 'how': how, 'must': True}
    elif fam == 'longtext':
        for n in (256, 300):
            for where in ('channel-name', 'frame-name', 'origin-name', 'zone-name', 'set-name', 'channel-units',
                          'attr-units', 'ident-value', 'nf-name', 'set-identifier', 'header-id'):
                yield {'family': fam, 'ctx': ctx, 'n': n, 'where': where, 'must': True}
    elif fam == 'nonascii':
        for where in ('channel-name', 'frame-name', 'origin-name', 'set-name', 'channel-units', 'attr-units', 'text-value',
                      'ident-value', 'nf-payload', 'set-identifier', 'header-id', 'long-name', 'multi-text'):
            for ch in ('é', '€', '\x80'):
                yield {'family': fam, 'ctx': ctx, 'where': where, 'ch': ch, 'must': True}
    elif fam == 'intrange':
        for what, vals in (('file_set_number', [2 ** 30, -1]), ('file_number', [2 ** 30, -5]),
                           ('descent_number', [65536, -1]), ('run_number', [70000]), ('producer_code', [-2]),
                           ('name_space_version', [2 ** 31]), ('dimension', [[-1], [2 ** 30]]),
                           ('element_limit', [[2 ** 30]]), ('origin-ref-origin', [2 ** 30, -1]),
                           ('origin-ref-object', [2 ** 30, -1]), ('encrypted', [2, -1]), ('copy-256', [256]),
                           ('sample_count', [2 ** 31, -2 ** 31 - 1]), ('status', [2, -1]),
                           # integer lists (written as SLONG) with ONE value out of range, at several list lengths
                           ('axis-coordinates', [[0] * k + [2 ** 31] for k in (0, 1, 15, 16, 199)] + [[-2 ** 31 - 1] + [5] * 19]),
                           ('parameter-values', [[1] * k + [2 ** 31] for k in (0, 15, 16, 127)])):
            for v in vals:
                yield {'family': fam, 'ctx': ctx, 'what': what, 'v': v, 'must': True}
    elif fam == 'fraction':
        # numbers with a fractional part, of several numeric types, for attributes that hold integers
        for what in ('file_number', 'descent_number', 'dimension', 'element_limit', 'sample_count', 'encrypted'):
            for v in (7.5, {'$np': ['float32', 7.5]}, {'$np': ['float16', 2.25]}, {'$np': ['float64', 7.5]},
                      {'$frac': [5, 2]}, {'$dec': '12.75'}):
                yield {'family': fam, 'ctx': ctx, 'what': what, 'v': v, 'must': True}
    elif fam == 'structure':
        for how in ('no-origin', 'no-channel', 'no-frame', 'frame-without-channels', 'file-id-mismatch',
                    'no-logical-file', 'second-lf-without-origin', 'same-named-channels-in-frame',
                    'same-named-channels-in-frame-dict', 'same-channel-twice-in-frame',
                    # header fields that do not fit their fixed width, assigned after the header item was made
                    'header-id-74-chars-assigned-later', 'header-sequence-number-11-digits-assigned-later',
                    # a frame holding a channel object that was made outside the file (no CHANNEL set of this file has it)
                    'frame-with-foreign-channel',
                    # a frame of the second logical file listing a channel object of the FIRST one (equally named
                    # channels exist in both, so the two have the same name, origin and copy number)
                    'frame-with-channel-of-other-logical-file', 'frame-with-channel-of-other-logical-file-and-own'):
            yield {'family': fam, 'ctx': ctx, 'how': how, 'must': how != 'no-logical-file'}
    elif fam == 'window':
        for src in ('inline', 'dict', 'struct', 'h5'):
            for w in ({'from_idx': -1}, {'from_idx': -1, 'to_idx': 2}, {'to_idx': 5}, {'from_idx': 1, 'to_idx': 5},
                      {'from_idx': 2, 'to_idx': 2}, {'from_idx': 2, 'to_idx': 1}, {'from_idx': 3}, {'to_idx': 0},
                      {'to_idx': -1}, {'input_chunk_size': -1}, {'input_chunk_size': 0}, {'input_chunk_size': 1.5},
                      {'from_idx': 1.0}, {'to_idx': 2.0}):
                yield {'family': fam, 'ctx': ctx, 'src': src, 'w': w, 'must': False}
    elif fam == 'unusual':
        # valid but unusual spellings of valid inputs: whatever is written must be faithful
        for what in ('cast-big-endian-dtype', 'cast-dtype-class', 'cast-native-explicit', 'data-big-endian',
                     'data-fortran-order', 'data-readonly', 'data-strided', 'tuple-values', 'numpy-scalar-values',
                     'dimension-as-int', 'bool-status', 'name-with-spaces', 'chunk-larger-than-rows'):
            for src in ('inline', 'dict', 'struct'):
                yield {'family': fam, 'ctx': ctx, 'what': what, 'src': src, 'must': False}
    elif fam == 'badsource':
        # things handed to write(data=...) that are no data source (or hold something that is no array); with and without
        # arrays given at channel creation.  A plain list in place of an array may be refused or taken for the array.
        for how in ('int', 'txt-path', 'bytes-path', 'plain-ndarray', 'struct-2d', 'list-of-arrays', 'tuple-pairs',
                    'dict-list-value', 'dict-none-value', 'dict-int-key', 'dict-extra-none', 'dict-extra-list',
                    'dict-scalar-value', 'h5-is-a-directory', 'h5-group-for-dataset'):
            for inline in (False, True):
                yield {'family': fam, 'ctx': ctx, 'how': how, 'inline': inline,
                       'must': how not in ('dict-list-value', 'dict-extra-none', 'dict-extra-list', 'dict-int-key')}
    elif fam == 'mixed':
        # value lists whose elements are of different kinds, for attributes that take numbers or text: refused, or
        # written so that every element decodes to what was given (a number stays a number); texts that are plain
        # decimal numerals are converted to numbers by design and stay outside the alphabet, as in mc/lattice.py
        for kind, kwname in (('axis', 'coordinates'), ('parameter', 'values'), ('computation', 'values')):
            for v in ([1, 'a'], ['a', 1], [1.5, 'b'], [1, 2.5], [2.5, 1], [True, 2], [1, True], [1, 2, 'x'],
                      [7, {'$f': '7ff0000000000000'}], [0, {'$f': '8000000000000000'}]):
                yield {'family': fam, 'ctx': ctx, 'kind': kind, 'kwname': kwname, 'v': v, 'must': False}
    elif fam == 'empty':
        for kind, kw in (('axis', {'coordinates': []}), ('parameter', {'values': []}), ('parameter', {'zones': []}),
                         ('comment', {'text': []}), ('long_name', {'conditions': []}),
                         ('channel', {'properties': []}), ('channel', {'axis': []}), ('tool', {'channels': []}),
                         ('calibration_coefficient', {'coefficients': []}), ('computation', {'values': [[]]}),
                         ('group', {'object_list': []}), ('message', {'text': []})):
            yield {'family': fam, 'ctx': ctx, 'kind': kind, 'kw': kw, 'must': False}


def make_spec(c):
    fam, ctx = c['family'], c['ctx']
    if fam == 'rows':
        sp = base(ctx, src=c['src'])
        a = S.arr_spec('float64', [c['ra']], [0x3FF0000000000000 + (k << 48) for k in range(c['ra'])])
        b = S.arr_spec('uint16', [c['rb'], 2], list(range(1, 2 * c['rb'] + 1)))
        _put(sp, c['src'], {'CHAN-A': a, 'CHAN-B': b})
        if c['chunk']:
            sp['write']['input_chunk_size'] = c['chunk']
        if c.get('win'):
            sp['write']['from_idx'] = c['win'][0]
            if c['win'][1] is not None:
                sp['write']['to_idx'] = c['win'][1]
        return sp
    if fam == 'dtype':
        sp = base(ctx, src=c['src'])
        name = 'CHAN-A' if c['which'] == 'CA' else 'CHAN-B'
        shape = [3] if c['which'] == 'CA' else [3, 2]
        _put(sp, c['src'], {name: {'$rawarr': {'dtype': c['dt'], 'shape': shape}}}, partial=True)
        return sp
    if fam == 'ndim':
        sp = base(ctx, src=c['src'])
        _put(sp, c['src'], {'CHAN-B': {'$rawarr': {'dtype': 'float32', 'shape': c['shape']}}}, partial=True)
        return sp
    if fam == 'missing':
        how = c['how']
        if how == 'dict-key':
            sp = base(ctx, src='dict')
            del sp['write']['data']['$datadict']['CHAN-B']
        elif how == 'h5-dataset':
            sp = base(ctx, src='h5')
            del sp['write']['data']['$h5']['/CHAN-B']
        elif how == 'h5-file':
            sp = base(ctx, src='h5')
            sp['write']['data'] = '/dev/shm/does-not-exist-verif.h5'
        elif how == 'struct-field':
            sp = base(ctx, src='struct')
            sp['write']['data']['$struct']['fields'].pop()
        elif how.startswith('only-a-refused-call-brought-data'):
            sp = base(ctx, src='inline')
            sn = {'set_name': 'GAMMA-SET'} if how.endswith('named-set') else {}
            sp['ops'].append(S.op_add('channel', 'RJ', 'GR', expect='raise', data=_arr('float32', [3]),
                                      properties=['NOT-A-PROPERTY'], **sn))
            sp['ops'].append(S.op_add('channel', 'GX', 'GR', **sn))
            sp['ops'].append(S.op_add('frame', 'FG', 'FRAME-G', channels=[{'$ref': 'GX'}]))
        elif how == 'no-data-at-all':
            sp = base(ctx, src='dict')
            del sp['write']['data']
        else:
            sp = base(ctx, src='dict')
            sp['ops'][3]['kw']['dataset_name'] = 'SOMETHING-ELSE'
        return sp
    if fam in ('longtext', 'nonascii'):
        sp = base('rich' + ('@' + ctx.split('@')[1] if '@' in ctx else ''))
        if ctx.startswith('minimal'):
            sp['sul']['max_record_length'] = 128 if '@' not in ctx else 40
        t = LONG[c['n']] if fam == 'longtext' else 'AB' + c['ch'] + 'CD'
        w = c['where']
        idx = {'channel-name': 2, 'frame-name': 4, 'origin-name': 1, 'zone-name': 5, 'nf-name': 8}
        if w in idx:
            sp['ops'][idx[w]]['name'] = t
        elif w == 'set-name':
            sp['ops'][5]['kw']['set_name'] = t
        elif w == 'channel-units':
            sp['ops'][2]['kw']['units'] = t
        elif w == 'attr-units':
            sp['ops'][5]['kw']['maximum'] = {'$as': {'value': 12.5, 'units': t}}
        elif w == 'ident-value':
            sp['ops'][7]['kw']['axis_id'] = t
        elif w == 'text-value':
            sp['ops'][5]['kw']['description'] = t
        elif w == 'multi-text':
            sp['ops'].append(S.op_add('comment', 'CM', 'COMMENT', text=['fine', t]))
        elif w == 'long-name':
            sp['ops'][2]['kw']['long_name'] = t
        elif w == 'nf-payload':
            sp['ops'][9]['data'] = t
        elif w == 'set-identifier':
            sp['sul']['set_identifier'] = t if fam == 'nonascii' else 'S' * (61 if c['n'] == 256 else 100)
        elif w == 'header-id':
            sp['ops'][0]['kw']['fh_id'] = t if fam == 'nonascii' else 'H' * (66 if c['n'] == 256 else 100)
        return sp
    if fam in ('intrange', 'fraction'):
        sp = base(ctx)
        what, v = c['what'], c['v']
        if fam == 'fraction' and what in ('dimension', 'element_limit'):
            v = [v]
        if what in ('file_set_number', 'file_number', 'descent_number', 'run_number', 'producer_code', 'name_space_version'):
            sp['ops'][1]['kw'][what] = v
        elif what in ('dimension', 'element_limit'):
            sp['ops'].append(S.op_add('channel', 'CX', 'LONELY', **{what: v}))
        elif what == 'origin-ref-origin':
            sp['ops'][1]['kw']['origin_reference'] = v
        elif what == 'origin-ref-object':
            sp['ops'].append(S.op_add('zone', 'ZX', 'ZONE-X', origin_reference=v))
        elif what == 'encrypted':
            sp['ops'][4]['kw']['encrypted'] = v
        elif what == 'copy-256':
            for k in range(257):
                sp['ops'].append(S.op_add('zone', f'ZC{k}', 'SAME-NAME'))
        elif what == 'sample_count':
            sp['ops'].append(S.op_add('calibration_measurement', 'CM', 'CMEAS', sample_count=v))
        elif what == 'status':
            sp['ops'].append(S.op_add('tool', 'T', 'TOOL', status=v))
        elif what == 'axis-coordinates':
            sp['ops'].append(S.op_add('axis', 'AXL', 'AXIS-WITH-LIST', coordinates=v))
        elif what == 'parameter-values':
            sp['ops'].append(S.op_add('parameter', 'PAL', 'PARAM-WITH-LIST', values=v))
        return sp
    if fam == 'structure':
        sp = base(ctx)
        how = c['how']
        if how == 'no-origin':
            del sp['ops'][1]
        elif how == 'no-channel':
            sp['ops'] = [op for op in sp['ops'] if op.get('kind') not in ('channel', 'frame')]
        elif how == 'no-frame':
            sp['ops'] = [op for op in sp['ops'] if op.get('kind') != 'frame']
        elif how == 'frame-without-channels':
            sp['ops'][4]['kw']['channels'] = []
        elif how == 'file-id-mismatch':
            sp['ops'].append({'op': 'set', 'h': 'O0', 'attr': 'file_id', 'part': 'value', 'value': 'ANOTHER-ID'})
        elif how == 'no-logical-file':
            sp['ops'] = []
        elif how == 'frame-with-foreign-channel':
            sp['ops'].append({'op': 'foreign_channel', 'h': 'FC', 'name': 'FOREIGN'})
            sp['ops'].append(S.op_add('frame', 'FF', 'FRAME-WITH-FOREIGN-CHANNEL', channels=[{'$ref': 'FC'}]))
            sp['write']['data'] = {'$datadict': {'FOREIGN': _arr('uint8', [3])}}
        elif how == 'header-id-74-chars-assigned-later':
            sp['ops'].append({'op': 'fhid', 'lf': 'L0', 'value': 'H' * 74})
            sp['ops'].append({'op': 'set', 'h': 'O0', 'attr': 'file_id', 'part': 'value', 'value': 'H' * 74})
        elif how == 'header-sequence-number-11-digits-assigned-later':
            sp['ops'].append({'op': 'fhid', 'lf': 'L0', 'attr': 'sequence_number', 'value': 12345678901})
        elif how.startswith('same-named-channels-in-frame'):
            inline = not how.endswith('dict')
            x1 = _arr('uint8', [3])
            x2 = _arr('uint16', [3])
            sp['ops'].append(S.op_add('channel', 'X1', 'X', **({'data': x1} if inline else {})))
            sp['ops'].append(S.op_add('channel', 'X2', 'X', **({'data': x2} if inline else {})))
            sp['ops'].append(S.op_add('frame', 'FX', 'FRAME-X', channels=[{'$ref': 'CA'}, {'$ref': 'X1'}, {'$ref': 'X2'}]))
            sp['ops'] = [op for op in sp['ops'] if op.get('h') != 'F']
            sp['ops'].append(S.op_add('frame', 'F', 'FRAME', channels=[{'$ref': 'CB'}]))
            if not inline:
                sp['write']['data'] = {'$datadict': {'X': x1, 'X__1': x2}}
        elif how == 'same-channel-twice-in-frame':
            sp['ops'][4]['kw']['channels'] = [{'$ref': 'CA'}, {'$ref': 'CB'}, {'$ref': 'CA'}]
        elif how.startswith('frame-with-channel-of-other-logical-file'):
            sp['ops'].append({'op': 'lf', 'h': 'L1', 'kw': {'fh_id': 'SECOND'}})
            sp['ops'].append(S.op_origin('O1', 'ORIGIN-2', lf='L1', set_name='S2'))
            sp['ops'].append(S.op_add('channel', 'C2', 'CHAN-A', lf='L1', set_name='S2', data=_arr('float32', [3])))
            sp['ops'].append(S.op_add('channel', 'C3', 'OTHER', lf='L1', set_name='S2', data=_arr('uint8', [3])))
            chans = [{'$ref': 'CA'}] + ([{'$ref': 'C3'}] if how.endswith('own') else [])
            sp['ops'].append(S.op_add('frame', 'F2', 'FR2', lf='L1', set_name='S2', channels=chans))
        elif how == 'second-lf-without-origin':
            sp['ops'].append({'op': 'lf', 'h': 'L1', 'kw': {'fh_id': 'SECOND'}})
            sp['ops'].append(S.op_add('channel', 'C2', 'CH2', lf='L1', set_name='S2', data=_arr('uint8', [2])))
            sp['ops'].append(S.op_add('frame', 'F2', 'FR2', lf='L1', set_name='S2', channels=[{'$ref': 'C2'}]))
        return sp
    if fam == 'window':
        sp = base(ctx, src=c['src'])
        sp['write'].update(c['w'])
        return sp
    if fam == 'unusual':
        sp = base(ctx, src=c['src'])
        w = c['what']
        b2 = lambda **k: S.arr_spec('uint16', [3, 2], list(range(1, 7)), **k)
        if w == 'cast-big-endian-dtype':
            sp['ops'][3]['kw']['cast_dtype'] = {'$dtype': '>f4'}
        elif w == 'cast-dtype-class':
            sp['ops'][3]['kw']['cast_dtype'] = {'$dtype': 'float32', 'as': 'type'}
        elif w == 'cast-native-explicit':
            sp['ops'][3]['kw']['cast_dtype'] = {'$dtype': '<u4'}
        elif w == 'data-big-endian':
            _put(sp, c['src'], {'CHAN-B': b2(bo='>')})
        elif w == 'data-fortran-order':
            _put(sp, c['src'], {'CHAN-B': b2(layout='F')})
        elif w == 'data-readonly':
            _put(sp, c['src'], {'CHAN-B': b2(layout='readonly')})
        elif w == 'data-strided':
            _put(sp, c['src'], {'CHAN-B': b2(layout='strided')})
        elif w == 'tuple-values':
            sp['ops'].append(S.op_add('comment', 'CM', 'COMMENT', text={'$tuple': ['a', 'b']}))
            sp['ops'].append(S.op_add('axis', 'AX2', 'AXIS-2', coordinates={'$tuple': [1.5, 2.5]}))
        elif w == 'numpy-scalar-values':
            sp['ops'].append(S.op_add('axis', 'AX2', 'AXIS-2', spacing={'$np': ['float32', 0.5]},
                                      coordinates=[{'$np': ['int16', 3]}, {'$np': ['int16', 4]}]))
        elif w == 'dimension-as-int':
            sp['ops'].append(S.op_add('channel', 'CX', 'LONELY', dimension=4, element_limit=4))
        elif w == 'bool-status':
            sp['ops'].append(S.op_add('tool', 'T', 'TOOL', status=True))
            sp['ops'].append(S.op_add('equipment', 'E', 'EQUIP', status=False))
        elif w == 'name-with-spaces':
            sp['ops'][2]['name'] = 'Chan A (first)'
            if c['src'] != 'inline':
                d = sp['write']['data']
                for key in ('$datadict', '$h5'):
                    if key in d:
                        d[key] = {('Chan A (first)' if k.lstrip('/') == 'CHAN-A' else k): v for k, v in d[key].items()}
                if '$struct' in d:
                    d['$struct']['fields'] = [[('Chan A (first)' if k == 'CHAN-A' else k), v] for k, v in d['$struct']['fields']]
        elif w == 'chunk-larger-than-rows':
            sp['write']['input_chunk_size'] = 1000
        return sp
    if fam == 'badsource':
        sp = base(ctx, src='inline' if c['inline'] else 'dict')
        good = {'CHAN-A': S.arr_spec('float64', [3], [0x3FF0000000000000 + (k << 48) for k in range(3)]),
                'CHAN-B': S.arr_spec('uint16', [3, 2], list(range(1, 7)))}
        how = c['how']
        if how.startswith('dict-'):
            d = dict(good)
            if how == 'dict-list-value':
                d['CHAN-A'] = {'$tolist': good['CHAN-A']}
            elif how == 'dict-none-value':
                d['CHAN-A'] = None
            elif how == 'dict-scalar-value':
                d['CHAN-A'] = 1.5
            elif how == 'dict-extra-none':
                d['UNUSED'] = None
            elif how == 'dict-extra-list':
                d['UNUSED'] = [1, 2, 3]
            sp['write']['data'] = {'$datadict': d}
            if how == 'dict-int-key':
                sp['write']['data']['intkey'] = True
        elif how.startswith('h5-'):
            sp['write']['data'] = {'$bad': how}
        else:
            sp['write']['data'] = {'$bad': how}
        return sp
    if fam == 'mixed':
        sp = base('rich' + ('@' + ctx.split('@')[1] if '@' in ctx else ''))
        if ctx.startswith('minimal'):
            sp['sul']['max_record_length'] = 128 if '@' not in ctx else 40
        kw = {c['kwname']: copy.deepcopy(c['v'])}
        if c['kind'] in ('parameter', 'computation'):
            kw['zones'] = [{'$ref': 'Z'}] * 1
            sp['ops'].append(S.op_add('zone', 'Z2', 'ZONE-2'))
            sp['ops'].append(S.op_add('zone', 'Z3', 'ZONE-3'))
            kw['zones'] = [{'$ref': z} for z in ('Z', 'Z2', 'Z3')][:len(c['v'])]
        sp['ops'].append(S.op_add(c['kind'], 'MX', 'MIXED-ONE', **kw))
        return sp
    if fam == 'empty':
        sp = base('rich' + ('@' + ctx.split('@')[1] if '@' in ctx else ''))
        if ctx.startswith('minimal'):
            sp['sul']['max_record_length'] = 128 if '@' not in ctx else 40
        kw = copy.deepcopy(c['kw'])
        sp['ops'].append(S.op_add(c['kind'], 'E', 'EMPTY-ONE', **kw))
        return sp
    raise ValueError(c)


def _put(sp, src, arrays, partial=False):
    """Replace (some of) the data arrays of the base spec."""
    if src == 'inline':
        for op in sp['ops']:
            if op.get('kind') == 'channel' and op['name'] in arrays:
                op['kw']['data'] = arrays[op['name']]
    elif src == 'dict':
        sp['write']['data']['$datadict'].update(arrays)
    elif src == 'h5':
        sp['write']['data']['$h5'].update({'/' + k: v for k, v in arrays.items()})
    elif src == 'struct':
        f = dict(sp['write']['data']['$struct']['fields'])
        f.update(arrays)
        sp['write']['data']['$struct']['fields'] = [[k, v] for k, v in f.items()]


def full_check(sp, data, c):
    """Strict parse + grammar + full model comparison."""
    errs = []
    phys = R.parse_physical(data)
    if c['family'] == 'badsource':
        sp = copy.deepcopy(sp)
        d = sp['write']['data']['$datadict']
        sp['write']['data'].pop('intkey', None)
        for k in list(d):
            if isinstance(d[k], dict) and '$tolist' in d[k]:
                d[k] = d[k]['$tolist']
            elif k == 'UNUSED':
                del d[k]
    if not sp['ops']:
        return [('records_in_empty_file', f"{len(phys.records)} records")] if phys.records else []
    errs += c04.grammar_errors(data, sp)
    if errs:
        return errs
    lfs = R.split_logical_files(phys)
    m = M.Model(sp)
    if c['family'] == 'window':
        w = c['w']
        rows = 3
        fr = max(int(w.get('from_idx', 0) or 0), 0)
        to = w.get('to_idx')
        to = rows if to is None else min(int(to), rows)
        m.spec = dict(sp, write=dict(sp['write'], from_idx=fr, to_idx=to))
    if len(lfs) != len(m.lfs):
        return [('logical_file_count', f"{len(lfs)} in file, {len(m.lfs)} specified")]
    for mlf, lf in zip(m.lfs, lfs):
        errs += M.check_inventory(m, mlf, lf) + M.check_attrs(m, mlf, lf) + M.check_rows(m, mlf, lf)
        errs += M.check_noformat(m, mlf, lf) + M.check_header_and_order(m, mlf, lf) + M.check_identity_and_refs(m, mlf, lf)
    return errs


def aspect(c):
    f = c['family']
    if f == 'rows':
        return ('shorter' if c['rb'] < c['ra'] else 'longer') + ('-len1' if 1 in (c['ra'], c['rb']) else '') + \
            ('-window' if c.get('win') else '')
    if f == 'dtype':
        return c['dt']
    if f == 'ndim':
        return f"{len(c['shape'])}d"
    if f in ('missing', 'structure'):
        return c['how']
    if f == 'longtext':
        return c['where']
    if f == 'nonascii':
        return c['where']
    if f in ('intrange', 'fraction'):
        return c['what']
    if f == 'window':
        return '+'.join(f"{k}={v}" for k, v in sorted(c['w'].items()))
    if f == 'empty':
        return c['kind'] + '.' + next(iter(c['kw']))
    if f == 'unusual':
        return c['what']
    if f == 'badsource':
        return c['how']
    if f == 'mixed':
        return c['kind'] + '.' + '+'.join(type(x).__name__ for x in c['v'])
    return ''


def run_case(c):
    sp = make_spec(c)
    try:
        res = S.run_spec(sp)
    except (UnicodeEncodeError, OSError) as e:       # harness-side failure to even express the input
        return Outcome('harness-skip', [], False, digest=type(e).__name__)
    raised = res['failed_at'] is not None or res['write'] != 'ok'
    viol = []
    asp = aspect(c)
    if raised:
        return Outcome(f"raised:{c['family']}", [], True, digest='raised')
    if c['must']:
        viol.append((f"C12:accepted:{c['family']}:{asp}", f"input the format cannot represent was written without an "
                                                          f"exception | {_brief(c)}"))
        return Outcome(f"accepted:{c['family']}", viol, True, digest=sha(res['data']))
    try:
        for code, d in full_check(sp, res['data'], c):
            viol.append((f"C12:unfaithful:{c['family']}:{asp}:{code}", f"{d[:300]} | {_brief(c)}"))
    except R.FormatError as e:
        viol.append((f"C12:malformed:{c['family']}:{asp}:{e.code}", f"{e} | {_brief(c)}"))
    return Outcome(f"written:{c['family']}", viol, True, digest=sha(res['data']))


def _brief(c):
    return {k: v for k, v in c.items() if k not in ('must',)}
