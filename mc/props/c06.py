"""C06 — primitive values are encoded exactly as their representation code prescribes.

Exhaustive over finite domains through the public ``write_struct`` (cold cache before every value; a separate
``warm`` shard encodes ordered pairs of ==-equal but distinct values without clearing the cache)."""
from __future__ import annotations

import itertools
import os
import struct
import time
from datetime import datetime, timedelta, timezone

from mc import rp66 as R
from mc.engine import Outcome, sha

ID = 'C06'
ENGINE = 'E1 full product over finite value domains'
RULE = ("every value of the per-code domain listed in bounds is encoded by write_struct from a cold cache and decoded "
        "by the independent decoder; the count characteristic of an attribute (a UVARI emitted by the attribute itself) for 1..300 and 16383..16385 values through the public Attribute class; value lists of 1..200 fixed-width numbers with one element outside the domain at either end (must be refused) or at its edge; IDENT/ASCII contents with blanks, control characters and number-like texts; non-trivial = value inside the code's domain whose decoding was compared; "
        "values are distinct by construction within a code")
ASSUMPTIONS = ["independent decoder mc/rp66.py", "FSINGL checked on float32-representable values, non-finite values "
               "and overflow only (rounding of other doubles is not a defect)"]

CODES = {'USHORT': 15, 'UNORM': 16, 'ULONG': 17, 'UVARI': 18, 'SSHORT': 12, 'SNORM': 13, 'SLONG': 14, 'FSINGL': 2,
         'FDOUBL': 7, 'IDENT': 19, 'ASCII': 20, 'DTIME': 21, 'STATUS': 26, 'OBNAME': 23, 'OBJREF': 24}
INT_RANGE = {'USHORT': (0, 255), 'UNORM': (0, 65535), 'ULONG': (0, 2 ** 32 - 1), 'UVARI': (0, 2 ** 30 - 1),
             'SSHORT': (-128, 127), 'SNORM': (-32768, 32767), 'SLONG': (-2 ** 31, 2 ** 31 - 1)}


def shards(tier):
    s = [{'code': c} for c in ('USHORT', 'UNORM', 'ULONG', 'SSHORT', 'SNORM', 'SLONG', 'FSINGL', 'FDOUBL', 'IDENT',
                               'ASCII', 'STATUS', 'OBNAME', 'OBJREF', 'WARM', 'COUNT', 'LISTRANGE')]
    s += [{'code': 'UVARI', 'part': p} for p in range(4)]
    s += [{'code': 'DTIME', 'tz': tz, 'year': y} for tz in ('UTC', 'XXX-5:30') for y in (1899, 1900, 1970, 2000, 2155, 2156)]
    return s


def bounds(tier):
    return {'UVARI': '0..16511 complete, 2^k+-1 (k<=32), 2^30+-64, negatives', 'fixed ints': 'whole range +-300 '
            '(8/16 bit), edges and powers of two +-300 (32 bit)', 'IDENT': 'lengths 0..300', 'ASCII': 'lengths 0..300, '
            '16383..16385, 70000', 'DTIME': '6 years x 12 months x 3 days x 3 times x 14 microsecond values x 5 zones '
            'x 2 process TZ', 'OBNAME/OBJREF': 'origin 8 values x copy 3 x name length 5'}


def _int_domain(name):
    lo, hi = INT_RANGE[name]
    if hi - lo <= 70000:
        return list(range(lo - 300, hi + 301))
    pts = set()
    for e in [lo, hi, 0] + [s * 2 ** k for k in range(1, 33) for s in (1, -1)]:
        for d in range(-300, 301) if e in (lo, hi, 0) else range(-3, 4):
            pts.add(e + d)
    return sorted(pts)


F64_PATTERNS = [0x0000000000000000, 0x8000000000000000, 0x3FF0000000000000, 0xBFF0000000000000, 0x7FF0000000000000,
                0xFFF0000000000000, 0x7FF8000000000000, 0x7FF8000000000001, 0xFFF8000000000000, 0x7FF0000000000001,
                0x0000000000000001, 0x000FFFFFFFFFFFFF, 0x0010000000000000, 0x7FEFFFFFFFFFFFFF, 0xFFEFFFFFFFFFFFFF,
                0x5555555555555555, 0xAAAAAAAAAAAAAAAA, 0x3FB999999999999A, 0x400921FB54442D18, 0x7FDFFFFFFFFFFFFF]
F32_PATTERNS = [0x00000000, 0x80000000, 0x3F800000, 0xBF800000, 0x7F800000, 0xFF800000, 0x7FC00000, 0x00000001,
                0x007FFFFF, 0x00800000, 0x7F7FFFFF, 0xFF7FFFFF, 0x55555555, 0x2AAAAAAA, 0x40490FDB]


def cases(shard, tier):
    c = shard['code']
    if c in INT_RANGE and c != 'UVARI':
        for v in _int_domain(c):
            yield {'code': c, 'v': v}
        for v in (1.0, 1.5, '1', None):
            yield {'code': c, 'v': v, 'bad': True}
    elif c == 'UVARI':
        p = shard['part']
        if p < 3:
            for v in range(p * 5504, (p + 1) * 5504):
                yield {'code': c, 'v': v}
        else:
            pts = set()
            for k in range(0, 33):
                for d in (-1, 0, 1):
                    pts.add(2 ** k + d)
            for d in range(-64, 65):
                pts.add(2 ** 30 + d)
            pts |= {-1, -2, -128, -16384, 2 ** 32, 2 ** 32 + 5, 2 ** 40}
            for v in sorted(pts):
                yield {'code': c, 'v': v}
    elif c == 'FDOUBL':
        for p in F64_PATTERNS:
            yield {'code': c, 'pat': p}
        for v in (0, 1, -7, 2 ** 53):
            yield {'code': c, 'v': v}
    elif c == 'FSINGL':
        for p in F32_PATTERNS:
            yield {'code': c, 'pat': p}
        for v in (1e39, -1e39, 3.5e38):
            yield {'code': c, 'v': v, 'overflow': True}
    elif c in ('IDENT', 'ASCII'):
        lens = list(range(0, 301)) + ([16383, 16384, 16385, 70000] if c == 'ASCII' else [1000, 16384])
        for n in lens:
            yield {'code': c, 'len': n}
        for n, pos in ((1, 0), (5, 0), (5, 2), (5, 4), (130, 129)):
            yield {'code': c, 'len': n, 'nonascii': pos}
        # contents rather than lengths: blanks at the ends, control characters, texts that look like numbers
        for text in ('ends with blank ', ' starts', '  ', 'a\nb', 'tab\there', '12', '1E5', '-0', 'NaN', "q'uote\"", '\x00', '\x7f', 'x' * 59 + ' '):
            yield {'code': c, 'len': len(text), 'text': text}
    elif c == 'STATUS':
        for v in (0, 1, True, False, 2, -1, 255, 256):
            yield {'code': c, 'v': v}
    elif c in ('OBNAME', 'OBJREF'):
        for o in (0, 1, 127, 128, 16383, 16384, 2 ** 30 - 1, 2 ** 30):
            for cp in (0, 255, 256):
                for n in (1, 127, 128, 255, 256):
                    yield {'code': c, 'origin': o, 'copy': cp, 'nlen': n}
    elif c == 'DTIME':
        us_vals = [0, 1, 499, 500, 501, 999, 1000, 1499, 1500, 500500, 999499, 999500, 999501, 999999]
        for mo in range(1, 13):
            for d in (1, 15, 28):
                for (H, M, S) in ((0, 0, 0), (12, 34, 56), (23, 59, 59)):
                    for us in us_vals:
                        for tz in (None, 0, 330, -480, 840):
                            yield {'code': c, 'dt': [shard['year'], mo, d, H, M, S, us], 'tz': tz, 'ptz': shard['tz']}
    elif c == 'COUNT':
        # the count characteristic of an attribute is a UVARI emitted by the attribute itself, not through write_struct
        for n in list(range(1, 301)) + [16383, 16384, 16385]:
            for under in ('USHORT', 'FDOUBL', 'ASCII'):
                if n > 300 and under != 'USHORT':
                    continue
                yield {'code': 'COUNT', 'n': n, 'under': under}
    elif c == 'LISTRANGE':
        # value lists of an attribute with a fixed code: one element outside the code's domain, at either end of lists
        # of several lengths (a list may be encoded by another route than a single value), and all-in-range edge lists
        for under in ('SSHORT', 'SNORM', 'SLONG', 'USHORT', 'UNORM', 'ULONG', 'FSINGL'):
            for n in (1, 2, 15, 16, 17, 128, 200):
                for pos in ('first', 'last'):
                    for which in ('above', 'below', 'edges-only'):
                        if which == 'below' and under == 'FSINGL':
                            continue
                        yield {'code': 'LISTRANGE', 'under': under, 'n': n, 'pos': pos, 'which': which}
    elif c == 'WARM':
        groups = [('FDOUBL', [{'pat': 0}, {'pat': 0x8000000000000000}, {'v': 0}]),
                  ('FSINGL', [{'pat32': 0}, {'pat32': 0x80000000}]),
                  ('IDENT', [{'v': 1}, {'v': 1.0}, {'v': True}]),
                  ('ASCII', [{'v': 1}, {'v': 1.0}, {'v': True}, {'v': 0}, {'v': False}, {'v': 0.0}]),
                  ('FDOUBL', [{'v': 1}, {'v': True}, {'v': 1.0}]),
                  # date-times that compare (and hash) equal but are different instants: the same wall-clock reading in
                  # the hour repeated when daylight-saving time ends, told apart only by `fold` (PEP 495); and equal
                  # instants spelled in different zones
                  ('DTIME', [{'fold': 0}, {'fold': 1}, {'fold': 0, 'naive_utc': True}, {'aware': 60}, {'aware': 0}])]
        for code, vals in groups:
            for a, b in itertools.permutations(range(len(vals)), 2):
                yield {'code': 'WARM', 'under': code, 'first': vals[a], 'second': vals[b]}


class _Set:
    def __init__(self, t): self.set_type = t


class _Item:
    """Duck-typed EFLR item: exactly the attributes write_struct_obname / write_struct_objref read."""

    def __init__(self, origin, copy, name, set_type='CHANNEL'):
        self.origin_reference, self.copy_number, self.name, self.parent = origin, copy, name, _Set(set_type)

    @property
    def obname(self):
        from dliswriter.utils.internal.struct_writer import write_struct_obname
        return write_struct_obname(self)


class _EndOfDST(__import__('datetime').tzinfo):
    """UTC+2 until 2021-10-31 03:00 local, UTC+1 afterwards; the hour 02:00-03:00 occurs twice (fold 0 / 1)."""

    def utcoffset(self, dt):
        naive = dt.replace(tzinfo=None, fold=0)
        if naive < datetime(2021, 10, 31, 2):
            return timedelta(hours=2)
        if naive < datetime(2021, 10, 31, 3):
            return timedelta(hours=1 if dt.fold else 2)
        return timedelta(hours=1)

    def dst(self, dt):
        return self.utcoffset(dt) - timedelta(hours=1)

    def tzname(self, dt):
        return 'X'

    def fromutc(self, dt):
        u = dt.replace(tzinfo=None)
        if u < datetime(2021, 10, 31, 1):
            return (u + timedelta(hours=2)).replace(tzinfo=self)
        r = (u + timedelta(hours=1)).replace(tzinfo=self)
        return r.replace(fold=1) if u < datetime(2021, 10, 31, 2) else r


_END_OF_DST = _EndOfDST()        # ONE zone object: date-times sharing their tzinfo compare by wall-clock fields only


def _dtime_pair_value(d):
    """(value handed to the encoder, the UTC instant it denotes)"""
    if 'fold' in d and not d.get('naive_utc'):
        v = datetime(2021, 10, 31, 2, 30, tzinfo=_END_OF_DST, fold=d['fold'])
        return v, datetime(2021, 10, 31, 1 if d['fold'] else 0, 30)
    if d.get('naive_utc'):
        return datetime(2021, 10, 31, 2, 30), datetime(2021, 10, 31, 2, 30)      # the process zone is UTC
    v = datetime(2021, 10, 31, 2 + d['aware'] // 60, 30, tzinfo=timezone(timedelta(minutes=d['aware'])))
    return v, datetime(2021, 10, 31, 2, 30)


def _value_of(d):
    if 'fold' in d or 'aware' in d:
        return _dtime_pair_value(d)[0]
    if 'pat' in d:
        return struct.unpack('>d', d['pat'].to_bytes(8, 'big'))[0]
    if 'pat32' in d:
        return struct.unpack('>f', d['pat32'].to_bytes(4, 'big'))[0]
    return d['v']


def _expected_bytes(code, v):
    """Standard's encoding for the WARM pairs (only codes used there)."""
    if code == 'FDOUBL':
        return struct.pack('>d', v)
    if code == 'FSINGL':
        return struct.pack('>f', v)
    s = str(v)
    if code == 'IDENT':
        return bytes([len(s)]) + s.encode()
    return bytes([len(s)]) + s.encode()


def run_case(case):
    from dliswriter.utils.internal.struct_writer import write_struct
    from dliswriter.utils.internal.internal_enums import RepresentationCode as RC
    c = case['code']
    viol = []

    def enc(code_name, v):
        try:
            return write_struct(RC(CODES[code_name]), v), None
        except Exception as e:  # noqa
            return None, f"{type(e).__name__}: {e}"

    def decode(code_name, b):
        try:
            v, raw, pos = R.decode_value(CODES[code_name], b, 0)
        except R.FormatError as e:
            return None, str(e)
        if pos != len(b):
            return None, f"decoder consumed {pos} of {len(b)} emitted bytes"
        return v, None

    if c == 'LISTRANGE':
        from dliswriter import Attribute
        under, n = case['under'], case['n']
        if under == 'FSINGL':
            lo, hi, bad_hi, bad_lo = -3.0e38, 3.0e38, 1e39, -1e39
            fill = [0.5 * k for k in range(n)]
        else:
            lo, hi = INT_RANGE[under]
            bad_hi, bad_lo = hi + 1, lo - 1
            fill = [(lo + k) if k % 2 else (hi - k) for k in range(n)]
        vals = list(fill)
        k = 0 if case['pos'] == 'first' else n - 1
        if case['which'] == 'above':
            vals[k] = bad_hi
        elif case['which'] == 'below':
            vals[k] = bad_lo
        else:
            vals[k] = hi if under != 'FSINGL' else 3.0e38
        a = Attribute('LABEL', multivalued=True, representation_code=RC(CODES[under]))
        try:
            a.value = vals
            b = a.get_as_bytes()
            err = None
        except Exception as e:  # noqa
            b, err = None, f"{type(e).__name__}: {e}"
        if case['which'] != 'edges-only':
            if err is None:
                viol.append((f"C06:LISTRANGE:accepts-invalid:{under}", f"{n} {under} values with {vals[k]!r} at {case['pos']} "
                                                                      f"position encoded as ...{b[-12:].hex()}"))
            return Outcome('rejected', viol, True, digest=str(err)[:20])
        if err is not None:
            viol.append((f"C06:LISTRANGE:rejects-valid:{under}", f"{n} in-range {under} values: {err}"))
            return Outcome('raised', viol, True, digest=err[:20])
        size = {'SSHORT': 1, 'USHORT': 1, 'SNORM': 2, 'UNORM': 2, 'SLONG': 4, 'ULONG': 4, 'FSINGL': 4}[under]
        tail = b[-size * n:]
        got = []
        for j in range(n):
            v, _, _ = R.decode_value(CODES[under], tail, j * size)
            got.append(v)
        want = vals if under != 'FSINGL' else [struct.unpack('>f', struct.pack('>f', x))[0] for x in vals]
        if got != want:
            viol.append((f"C06:LISTRANGE:wrong-bytes:{under}", f"{n} {under} values decode to {got[:4]}... instead of {want[:4]}..."))
        return Outcome('ok:list', viol, True, digest=sha(b))

    if c == 'COUNT':
        from dliswriter import Attribute
        n, under = case['n'], case['under']
        vals = [k % 256 for k in range(n)] if under == 'USHORT' else [k + 0.5 for k in range(n)] if under == 'FDOUBL' \
            else [f'text {k}' for k in range(n)]
        a = Attribute('LABEL', multivalued=True, representation_code=RC(CODES[under]))
        a.value = vals
        b = a.get_as_bytes()
        try:
            d = b[0]
            if d >> 5 != 1:
                raise R.FormatError('count_role', f"descriptor {d:#x} is not an ATTRIB component")
            pos = 1
            if d & 0x10:
                _, _, pos = R.decode_value(CODES['IDENT'], b, pos)
            cnt = 1
            if d & 0x08:
                p0 = pos
                cnt, pos = R.decode_uvari(b, pos)
                if cnt == n and pos - p0 != (1 if n < 128 else 2 if n < 16384 else 4):
                    viol.append(("C06:COUNT:length-form", f"count {n} emitted in {pos - p0} bytes"))
            code = 19
            if d & 0x04:
                code = b[pos]
                pos += 1
            if d & 0x02:
                _, _, pos = R.decode_value(CODES['IDENT'], b, pos)
            got = []
            if d & 0x01:
                for _ in range(cnt):
                    v, _, pos = R.decode_value(code, b, pos)
                    got.append(v)
            if cnt != n or code != CODES[under] or pos != len(b) or got != vals:
                viol.append(("C06:COUNT:wrong-bytes", f"{n} {under} values: count field decodes to {cnt}, code {code}, "
                                                      f"{pos} of {len(b)} bytes consumed, values equal: {got == vals}"))
        except (R.FormatError, IndexError) as e:
            viol.append(("C06:COUNT:wrong-bytes", f"{n} {under} values: {e}"))
        return Outcome('ok:count', viol, True, digest=sha(b))

    if c == 'WARM':
        under = case['under']
        v1, v2 = _value_of(case['first']), _value_of(case['second'])
        b1, e1 = enc(under, v1)
        b2, e2 = enc(under, v2)
        cls = 'warm'
        if under == 'DTIME':
            utc = _dtime_pair_value(case['second'])[1]
            got, derr = decode('DTIME', b2) if e2 is None else (None, e2)
            if derr or abs((got['dt'] - utc).total_seconds()) > 0.001:
                viol.append(("C06:warm-cache:DTIME", f"after encoding {v1!r}, DTIME of {v2!r} (fold={v2.fold}) gives "
                                                     f"{(b2 or b'').hex()} = {got and got['dt']}, the instant is {utc} UTC {derr or ''}"))
            return Outcome(cls, viol, True, digest=(b2 or b'').hex())
        if e2 is None and b2 != _expected_bytes(under, v2):
            viol.append((f"C06:warm-cache:{under}", f"after encoding {v1!r}, {under} of {v2!r} gives {b2.hex()} "
                                                    f"instead of {_expected_bytes(under, v2).hex()}"))
        return Outcome(cls, viol, True, digest=(b2 or b'').hex())

    if c in INT_RANGE:
        v = case['v']
        b, err = enc(c, v)
        lo, hi = INT_RANGE[c]
        valid = isinstance(v, int) and not isinstance(v, bool) and lo <= v <= hi and not case.get('bad')
        if valid:
            if err:
                viol.append((f"C06:{c}:rejects-valid", f"{c} {v}: {err}"))
            else:
                got, derr = decode(c, b)
                if derr or got != v:
                    viol.append((f"C06:{c}:wrong-bytes", f"{c} {v} -> {b.hex()} decodes to {got!r} {derr or ''}"))
                if c == 'UVARI':
                    want_len = 1 if v < 128 else 2 if v < 16384 else 4
                    if len(b) != want_len:
                        viol.append((f"C06:UVARI:length-form", f"UVARI {v} emitted in {len(b)} bytes"))
        else:
            if not err:
                viol.append((f"C06:{c}:accepts-invalid", f"{c} {v!r} outside domain encoded as {b.hex()}"))
        return Outcome('ok' if valid else 'rejected', viol, valid, digest=(b or b'x').hex())

    if c in ('FDOUBL', 'FSINGL'):
        if case.get('overflow'):
            b, err = enc(c, case['v'])
            if not err:
                viol.append((f"C06:{c}:accepts-invalid", f"{case['v']} encoded as {b.hex()}"))
            return Outcome('rejected', viol, False, digest='ovf')
        if 'pat' in case:
            size = 8 if c == 'FDOUBL' else 4
            raw = case['pat'].to_bytes(size, 'big')
            v = struct.unpack('>d' if size == 8 else '>f', raw)[0]
            # a float32 pattern widened to a Python float: signalling NaNs may be quieted by the widening itself
            want = struct.pack('>d' if size == 8 else '>f', v)
        else:
            v = case['v']
            want = struct.pack('>d', v)
        b, err = enc(c, v)
        if err:
            viol.append((f"C06:{c}:rejects-valid", f"{v!r}: {err}"))
        elif b != want:
            viol.append((f"C06:{c}:wrong-bytes", f"{v!r} -> {b.hex()} expected {want.hex()}"))
        return Outcome('ok', viol, True, digest=(b or b'').hex())

    if c in ('IDENT', 'ASCII'):
        n = case['len']
        s = ''.join(chr(0x21 + (i * 7) % 94) for i in range(n))
        if 'text' in case:
            s = case['text']
        if 'nonascii' in case:
            s = s[:case['nonascii']] + 'é' + s[case['nonascii'] + 1:]
        b, err = enc(c, s)
        limit = 255 if c == 'IDENT' else 2 ** 30 - 1
        valid = n <= limit and 'nonascii' not in case
        if valid:
            if err:
                viol.append((f"C06:{c}:rejects-valid", f"{c} of length {n}: {err}"))
            else:
                got, derr = decode(c, b)
                if derr or got != s:
                    k = 'len128-255' if (c == 'IDENT' and 128 <= n <= 255) else 'other'
                    viol.append((f"C06:{c}:malformed:{k}", f"{c} string of length {n} -> {b[:6].hex()}… decodes to "
                                                           f"{(got or '')[:12]!r} {derr or ''}"))
        elif not err:
            k = 'too-long' if 'nonascii' not in case else 'non-ascii'
            viol.append((f"C06:{c}:accepts-invalid:{k}", f"{c} string of length {n} encoded with prefix {b[:6].hex()}"))
        return Outcome('ok' if valid else 'rejected', viol, valid, digest=(b or b'x')[:16].hex())

    if c == 'STATUS':
        v = case['v']
        b, err = enc(c, v)
        valid = v in (0, 1)
        if valid and (err or b != bytes([int(v)])):
            viol.append(("C06:STATUS:wrong-bytes", f"{v!r} -> {b} {err}"))
        if not valid and not err:
            viol.append(("C06:STATUS:accepts-invalid", f"{v!r} -> {b.hex()}"))
        return Outcome('ok' if valid else 'rejected', viol, valid, digest=(b or b'x').hex())

    if c in ('OBNAME', 'OBJREF'):
        name = ''.join(chr(0x41 + i % 26) for i in range(case['nlen']))
        it = _Item(case['origin'], case['copy'], name)
        b, err = enc(c, it)
        valid = case['origin'] < 2 ** 30 and case['copy'] <= 255 and case['nlen'] <= 255
        if valid:
            if err:
                viol.append((f"C06:{c}:rejects-valid", f"{case}: {err}"))
            else:
                got, derr = decode(c, b)
                want = R.ObName(case['origin'], case['copy'], name)
                if c == 'OBJREF':
                    want = R.ObjRef('CHANNEL', want)
                if derr or got != want:
                    k = 'name128-255' if 128 <= case['nlen'] <= 255 else 'other'
                    viol.append((f"C06:{c}:malformed:{k}", f"{case} -> {b[:8].hex()}… decodes to {str(got)[:40]} {derr or ''}"))
        elif not err:
            k = 'name>255' if case['nlen'] > 255 else 'copy>255' if case['copy'] > 255 else 'origin'
            viol.append((f"C06:{c}:accepts-invalid:{k}", f"{case} encoded as {b[:8].hex()}…"))
        return Outcome('ok' if valid else 'rejected', viol, valid, digest=(b or b'x')[:16].hex())

    if c == 'DTIME':
        if os.environ.get('TZ') != case['ptz']:
            os.environ['TZ'] = case['ptz']
            time.tzset()
        y, mo, d, H, M, S, us = case['dt']
        tz = case['tz']
        local_off = timedelta(0) if case['ptz'] == 'UTC' else timedelta(hours=5, minutes=30)
        naive = datetime(y, mo, d, H, M, S, us)
        if tz is None:
            v = naive
            utc = naive - local_off
        else:
            v = naive.replace(tzinfo=timezone(timedelta(minutes=tz)))
            utc = naive - timedelta(minutes=tz)
        valid = 1900 <= utc.year <= 2155
        b, err = enc(c, v)
        os.environ['TZ'] = 'UTC'
        time.tzset()
        if 1900 <= y <= 2155 and not valid:
            # the UTC conversion crosses the representable range: outside the alphabet (either outcome accepted)
            return Outcome('edge', [], False, digest='edge')
        if valid:
            if err:
                viol.append(("C06:DTIME:rejects-valid", f"{case}: {err}"))
            else:
                got, derr = decode(c, b)
                if derr:
                    viol.append(("C06:DTIME:malformed", f"{case} -> {b.hex()}: {derr}"))
                else:
                    if got['tz'] != 2:
                        viol.append(("C06:DTIME:tz-nibble", f"{case}: tz code {got['tz']}"))
                    delta = abs((got['dt'] - utc).total_seconds())
                    if delta > 0.001 + 1e-9:
                        viol.append(("C06:DTIME:instant", f"{case}: decoded {got['dt']} vs UTC instant {utc} "
                                                          f"(off by {delta}s)"))
        elif not err:
            viol.append(("C06:DTIME:accepts-invalid", f"{case} -> {b.hex()}"))
        return Outcome('ok' if valid else 'rejected', viol, valid, digest=(b or b'x').hex())
    raise ValueError(case)
