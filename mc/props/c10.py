"""C10 — chunk sizes are invisible; the file on disk only ever grows by whole records."""
from __future__ import annotations

import os
from collections import deque

from mc import spec as S, rp66 as R
from mc.engine import Outcome, sha, scratch_dir

ID = 'C10'
ENGINE = ('E2 explicit-state search over the real BufferedOutput+ByteWriter machine (canonical state merging) + '
          'E1/E3 end-to-end product with flush-point enumeration')
RULE = ("(a) for every buffer size B in {vrl, vrl+2, .., 3*vrl}: breadth-first search over add(size)/final events on "
        "the real BufferedOutput+ByteWriter, states merged on (filled, append flag, total - disk length, finalised), "
        "disk content checked after every physical write; (b) end-to-end: every output_chunk_size from the record "
        "length to file size + 4 (step 2, plus odd / float spellings) x every input chunk size x prior content of the "
        "target; every input_chunk_size 1..R+1, 100 x source kind {inline, dict, structured array, HDF5} x row windows "
        "must give the same bytes as a single chunk; every flush point of every run is a crash point at which the on-disk bytes must be a prefix of the "
        "final file ending on a visible-record boundary; non-trivial = run whose flush log was checked")
ASSUMPTIONS = ["strict reader mc/rp66.py", "flush points observed through a harness-installed wrapper around "
               "ByteWriter.write_bytes (reads the file after each physical write)",
               "torn writes inside one f.write and OS-level crashes are outside the property"]

FLUSHES: list = []
_TAPPED = False


def worker_init(tier):
    _install_tap()


def _install_tap():
    global _TAPPED
    if _TAPPED:
        return
    from dliswriter.file import writer as W
    orig = W.ByteWriter.write_bytes

    def tapped(self, *args, **kwargs):
        orig(self, *args, **kwargs)
        try:
            with open(self.filename, 'rb') as f:
                disk = f.read()
        except OSError as e:
            disk = None
        FLUSHES.append((disk, self.total_size))
    W.ByteWriter.write_bytes = tapped
    _TAPPED = True


def shards(tier):
    out = [{'kind': 'machine', 'vrl': v} for v in ([24, 32] if tier == 'quick' else [20, 24, 32, 40])]
    vr = [32, 64, 128] if tier == 'quick' else [20, 32, 64, 128, 256]
    for v in vr:
        for spec_id in ('two-frames', 'noformat'):
            for part in range(4):
                out.append({'kind': 'e2e', 'vrl': v, 'spec': spec_id, 'part': part})
    out.append({'kind': 'args'})
    # input chunk size x data source kind x row window (the output must not depend on the input chunk size)
    for src in ('inline', 'dict', 'struct', 'h5'):
        out.append({'kind': 'ics', 'src': src})
    # TLA+ model of the buffer machine, checked by TLC; every edge of its state graph is replayed on the real classes
    cfgs = [(46, 7, 5)] if tier == 'quick' else [(b, g, 6) for b in (24, 26, 44, 46, 48, 68, 72) for g in (0, 7, 100)]
    for b, g, k in cfgs:
        out.append({'kind': 'tlc', 'B': b, 'G': g, 'MaxOps': k})
    return out


def bounds(tier):
    return {'machine': 'B in vrl..3*vrl step 2, adds of every even size 20..vrl, depth 7 with state merging',
            'e2e': 'output_chunk_size vrl..filesize+4 step 2; input_chunk_size None,1..R+1; 3 prior contents'}


def cases(shard, tier):
    if shard['kind'] == 'machine':
        v = shard['vrl']
        for B in range(v, 3 * v + 1, 2):
            yield {'kind': 'machine', 'vrl': v, 'B': B}
    elif shard['kind'] == 'tlc':
        yield dict(shard)
    elif shard['kind'] == 'ics':
        for rows in (4, 7):
            for win in ((0, None), (1, None), (2, None), (1, rows - 1), (0, rows - 1)):
                for ics in (1, 2, 3, 4, 5, 6, rows, rows + 1, 100):
                    yield {'kind': 'ics', 'src': shard['src'], 'rows': rows, 'win': list(win), 'ics': ics}
    elif shard['kind'] == 'args':
        for ocs in (31, 30, -64, 64.5, '64', True, 64.0, 1e3, [64]) + ((None,) if tier != 'quick' else ()):
            yield {'kind': 'args', 'ocs': ocs if not isinstance(ocs, list) else {'$tuple': ocs}}
    else:
        v = shard['vrl']
        size = len(_reference(v, shard['spec']))
        ocs_all = list(range(v, size + 6, 2))
        mine = ocs_all[shard['part']::4]
        rows = 3
        for i, ocs in enumerate(mine):
            for ics in (None, 1, 2, rows, rows + 1):
                pre = ('absent', 'short', 'long')[(i + (ics or 0)) % 3]
                yield {'kind': 'e2e', 'vrl': v, 'spec': shard['spec'], 'ocs': ocs, 'ics': ics, 'pre': pre}
        if shard['part'] == 0:
            for ocs in (v + 1, float(v), float(v + 2), size, size + 1, 2 ** 20):
                yield {'kind': 'e2e', 'vrl': v, 'spec': shard['spec'], 'ocs': ocs, 'ics': None, 'pre': 'absent'}
            yield {'kind': 'e2e', 'vrl': v, 'spec': shard['spec'], 'ocs': v, 'ics': None, 'pre': 'dir'}


def _ics_spec(c, ics):
    rows = c['rows']
    a = S.arr_spec('float64', [rows], [0x4000000000000000 + (k << 47) for k in range(rows)])
    b = S.arr_spec('int16', [rows, 2], [(3 * k + 1) % 65536 for k in range(2 * rows)])
    inline = c['src'] == 'inline'
    ops = [S.op_lf(), S.op_origin(),
           S.op_add('channel', 'C0', 'DEPTH', **({'data': a} if inline else {})),
           S.op_add('channel', 'C1', 'PAIR', **({'data': b} if inline else {})),
           S.op_add('frame', 'F0', 'MAIN', channels=[{'$ref': 'C0'}, {'$ref': 'C1'}], index_type='BOREHOLE-DEPTH')]
    w = {'output_chunk_size': 2 ** 16}
    if ics is not None:
        w['input_chunk_size'] = ics
    if c['win'][0]:
        w['from_idx'] = c['win'][0]
    if c['win'][1] is not None:
        w['to_idx'] = c['win'][1]
    d = {'DEPTH': a, 'PAIR': b}
    if c['src'] == 'dict':
        w['data'] = {'$datadict': d}
    elif c['src'] == 'struct':
        w['data'] = {'$struct': {'fields': [[k, v] for k, v in d.items()]}}
    elif c['src'] == 'h5':
        w['data'] = {'$h5': {'/' + k: v for k, v in d.items()}}
    return {'sul': {'max_record_length': 8192}, 'ops': ops, 'write': w}


def run_ics(c):
    key = ('ics', c['src'], c['rows'], tuple(c['win']))
    if key not in _REF:
        r = S.run_spec(_ics_spec(c, None), fname='ref10ics.dlis')
        _REF[key] = r['data'] if r['write'] == 'ok' else r['write']
    ref = _REF[key]
    res = S.run_spec(_ics_spec(c, c['ics']))
    viol = []
    if isinstance(ref, str) or ref is None:
        return Outcome('ics:reference-raised', [("C10:ics:harness:reference-raised", f"{ref} | {c}")], False)
    if res['write'] != 'ok':
        viol.append((f"C10:ics:valid-input-chunk-rejected:{c['src']}", f"{res['write']} | {c}"))
    elif res['data'] != ref:
        n1 = len([1 for r in R.parse_physical(res['data']).records if not r.is_eflr])
        n0 = len([1 for r in R.parse_physical(ref).records if not r.is_eflr])
        viol.append((f"C10:ics:file-depends-on-input-chunk:{c['src']}:{'row-count' if n1 != n0 else 'bytes'}",
                     f"input_chunk_size={c['ics']} gives {n1} frame-data records / {len(res['data'])} bytes, single chunk "
                     f"gives {n0} / {len(ref)} | {c}"))
    return Outcome(f"ics:{c['src']}", viol, True, digest=sha(res['data'] or b''))


def make_spec(vrl, which):
    ops = [S.op_lf(), S.op_origin()]
    ops.append(S.op_add('channel', 'C0', 'DEPTH', data=S.arr_spec('float64', [3], [0x3FF0000000000000, 0x4000000000000000, 0x4008000000000000])))
    ops.append(S.op_add('channel', 'C1', 'WAVE', data=S.arr_spec('uint16', [3, 3], list(range(1, 10)))))
    ops.append(S.op_add('frame', 'F0', 'MAIN', channels=[{'$ref': 'C0'}, {'$ref': 'C1'}]))
    if which == 'two-frames':
        ops.append(S.op_add('channel', 'C2', 'TIME', data=S.arr_spec('int32', [2], [5, 6])))
        ops.append(S.op_add('frame', 'F1', 'AUX', channels=[{'$ref': 'C2'}]))
    else:
        ops.append(S.op_add('no_format', 'N0', 'BLOB'))
        ops.append({'op': 'nfdata', 'lf': 'L0', 'nf': 'N0', 'data': {'$bytes': bytes(range(70)).hex()}})
        ops.append({'op': 'nfdata', 'lf': 'L0', 'nf': 'N0', 'data': 'text payload'})
    return {'sul': {'max_record_length': vrl}, 'ops': ops, 'write': {}}


_REF: dict = {}


def _reference(vrl, which):
    if (vrl, which) not in _REF:
        sp = make_spec(vrl, which)
        sp['write'] = {'output_chunk_size': 2 ** 20}
        res = S.run_spec(sp, fname='ref10.dlis')
        if res['data'] is None:
            raise RuntimeError(f"reference write failed: {res}")
        _REF[(vrl, which)] = res['data']
    return _REF[(vrl, which)]


def run_case(c):
    _install_tap()
    if c['kind'] == 'machine':
        return run_machine(c)
    if c['kind'] == 'tlc':
        return run_tlc_conformance(c)
    if c['kind'] == 'ics':
        return run_ics(c)
    if c['kind'] == 'args':
        sp = make_spec(64, 'two-frames')
        v = c['ocs']
        sp['write'] = {'output_chunk_size': v}
        valid = v is None or v in (64.0, 1e3)      # None = the default 2**32 (4 GiB buffer): thorough tier only
        res = S.run_spec(sp)
        viol = []
        if valid and res['write'] != 'ok':
            viol.append(("C10:args:rejected-valid", f"{res['write']} | {c}"))
        if not valid and res['write'] == 'ok':
            viol.append(("C10:args:accepted-invalid", f"output_chunk_size={v!r} accepted | {c}"))
        if valid and res['data'] is not None and res['data'] != _reference(64, 'two-frames'):
            viol.append(("C10:args:bytes-differ", f"{c}"))
        return Outcome('args:' + ('ok' if res['write'] == 'ok' else 'raised'), viol, True, digest=str(res['write'])[:30])
    # ------------------------------------------------------------------ end-to-end with flush-point enumeration
    ref = _reference(c['vrl'], c['spec'])
    sp = make_spec(c['vrl'], c['spec'])
    sp['write'] = {'output_chunk_size': c['ocs']}
    if c['ics'] is not None:
        sp['write']['input_chunk_size'] = c['ics']
    pre = {'absent': None, 'short': b'GARBAGE', 'long': b'\xff' * (len(ref) + 501), 'dir': 'dir'}[c['pre']]
    del FLUSHES[:]
    res = S.run_spec(sp, pre=pre)
    flushes = list(FLUSHES)
    viol = []
    if c['pre'] == 'dir':
        if res['write'] == 'ok':
            viol.append(("C10:e2e:directory-target-accepted", f"{c}"))
        return Outcome('dir-rejected', viol, True, digest='dir')
    valid_ocs = (c['ocs'] % 1 == 0)
    if not valid_ocs:
        if res['write'] == 'ok':
            viol.append(("C10:e2e:accepted-nonintegral", f"{c}"))
        return Outcome('rejected', viol, True, digest='rej')
    if res['write'] != 'ok':
        viol.append(("C10:e2e:valid-chunk-rejected", f"{res['write']} | {c}"))
        return Outcome('raised', viol, True, digest=res['write'][:30])
    data = res['data']
    if data != ref:
        k = next((i for i in range(min(len(data), len(ref))) if data[i] != ref[i]), min(len(data), len(ref)))
        why = 'prior-content-survives' if (c['pre'] == 'long' and len(data) > len(ref) and data.endswith(b'\xff' * 8)) \
            or (c['pre'] == 'short' and data.startswith(b'GARBAGE')) else 'bytes'
        viol.append((f"C10:e2e:differs-from-reference:{why}",
                     f"file ({len(data)} B) differs from reference ({len(ref)} B) at byte {k} | {c}"))
    try:
        bounds_ = {80} | {o + l for o, l in R.parse_physical(data).vrs}
    except R.FormatError as e:
        bounds_ = None
        viol.append((f"C10:e2e:unparsable:{e.code}", f"{e} | {c}"))
    if not flushes:
        viol.append(("C10:e2e:no-flush-observed", f"{c}"))
    last_total = None
    for i, (disk, total) in enumerate(flushes):
        last_total = total
        if disk is None:
            viol.append(("C10:e2e:flush-unreadable", f"flush {i} | {c}"))
            break
        if data[:len(disk)] != disk:
            viol.append(("C10:e2e:flush-not-prefix", f"after flush {i} the {len(disk)} on-disk bytes are not a prefix "
                                                     f"of the final file | {c}"))
            break
        if bounds_ is not None and len(disk) not in bounds_:
            viol.append(("C10:e2e:flush-mid-record", f"after flush {i} the file ends at {len(disk)}, not on a visible "
                                                     f"record boundary | {c}"))
            break
        if total != len(disk):
            viol.append(("C10:e2e:total-mismatch", f"after flush {i} writer reports {total} bytes, disk has "
                                                   f"{len(disk)} | {c}"))
            break
    if last_total is not None and last_total != len(data) and not any(s[0].startswith('C10:e2e:total') for s in viol):
        viol.append(("C10:e2e:total-mismatch", f"final reported total {last_total} != file size {len(data)} | {c}"))
    return Outcome(f"ok:flushes={min(len(flushes), 9)}", viol, True, digest=sha(data),
                   extra={'nodes': len(flushes) + 1, 'edges': len(flushes) + 1})


def run_machine(c):
    """Explicit-state BFS over the real BufferedOutput + ByteWriter for one buffer size."""
    from dliswriter.file.writer import BufferedOutput, ByteWriter
    vrl, B = c['vrl'], c['B']
    sizes = list(range(20, vrl + 1, 2))
    path = os.path.join(scratch_dir(), 'machine.bin')
    viol = []

    def replay(hist):
        """Run a history on fresh objects; returns (model, impl observation) and appends violations."""
        if os.path.exists(path):
            os.remove(path)
        del FLUSHES[:]
        w = ByteWriter(path)
        out = BufferedOutput(B, w)
        expected = b''
        fin = False
        for j, ev in enumerate(hist):
            nfl = len(FLUSHES)
            if ev == 'final':
                out.pass_bytes_to_writer()
                fin = True
            else:
                chunk = bytes((j * 37 + k) % 251 for k in range(ev))
                out.add_bytes(chunk)
                expected += chunk
                fin = False
            for disk, total in FLUSHES[nfl:]:
                # disk must be the concatenation of complete earlier adds
                ok_prefix = disk is not None and expected.startswith(disk)
                cut_ok = ok_prefix and (len(disk) in _boundaries(hist[:j + 1]))
                if not ok_prefix:
                    viol.append(("C10:machine:disk-not-prefix", f"B={B} history={hist[:j + 1]}"))
                elif not cut_ok:
                    viol.append(("C10:machine:disk-mid-add", f"B={B} history={hist[:j + 1]} disk={len(disk)}"))
                if disk is not None and total != len(disk):
                    viol.append(("C10:machine:total-mismatch", f"B={B} history={hist[:j + 1]} total={total} disk={len(disk)}"))
        disk_now = open(path, 'rb').read() if os.path.exists(path) else b''
        if fin and disk_now != expected:
            viol.append(("C10:machine:final-content", f"B={B} history={hist}: disk {len(disk_now)} B != {len(expected)} B added"))
        # (whether a physical write has happened is observed through the tap, not read from a private attribute)
        return (out._filled_size, len(FLUSHES) > 0, w.total_size - len(disk_now), fin, len(expected) - len(disk_now) - out._filled_size)

    def _boundaries(hist):
        s, acc = {0}, 0
        for ev in hist:
            if ev != 'final':
                acc += ev
                s.add(acc)
        return s

    seen = {replay([]): []}
    frontier = deque([[]])
    edges = 0
    depth_cap = 7
    while frontier:
        h = frontier.popleft()
        if len(h) >= depth_cap:
            continue
        for ev in sizes + ['final']:
            if h and h[-1] == 'final' and ev == 'final':
                continue
            nh = h + [ev]
            key = replay(nh)
            edges += 1
            if key[4] != 0 and not any(v[0] == 'C10:machine:bytes-lost' for v in viol):
                viol.append(("C10:machine:bytes-lost", f"B={B} history={nh}: {key[4]} bytes neither on disk nor in buffer"))
            if key not in seen:
                seen[key] = nh
                frontier.append(nh)
    uniq = {}
    for s_, d in viol:
        uniq.setdefault(s_, d)
    return Outcome(f"machine:states={min(len(seen) // 10, 9)}x10", list(uniq.items()), True, digest=str(len(seen)),
                   extra={'nodes': len(seen), 'edges': edges})


# ---------------------------------------------------------------------------------------------------------------------
# model + conformance cross-check: TLA+ model (tla/OutBuf.tla) explored by TLC, every edge replayed on the real code
# ---------------------------------------------------------------------------------------------------------------------
def _parse_dot(text):
    import re
    nodes, edges = {}, []
    for line in text.splitlines():
        m = re.match(r'^(-?\d+) -> (-?\d+) \[label="([^"]+)"', line)
        if m:
            edges.append((m.group(1), m.group(2), m.group(3)))
            continue
        m = re.match(r'^(-?\d+) \[label="([^"]+)"', line)
        if m:
            st = {}
            for part in m.group(2).split('\\n'):
                k, v = part.replace('/\\\\', '').strip().split(' = ')
                st[k.strip()] = {'TRUE': True, 'FALSE': False}.get(v.strip(), None)
                if st[k.strip()] is None:
                    st[k.strip()] = int(v)
            nodes[m.group(1)] = st
    return nodes, edges


def _tlc_graph(B, G, K, policy):
    import re
    import shutil
    import subprocess
    import tempfile
    from mc.engine import VERIF
    d = tempfile.mkdtemp(prefix='tlc-', dir=scratch_dir())
    try:
        shutil.copy(os.path.join(VERIF, 'tla', 'OutBuf.tla'), d)
        with open(os.path.join(d, 'OutBuf.cfg'), 'w') as f:
            f.write(f'CONSTANTS B = {B}\n G = {G}\n MaxOps = {K}\n Policy = "{policy}"\nINIT Init\nNEXT Next\n'
                    f'INVARIANT NeverOverfull\n')
        p = subprocess.run(['tlc', '-workers', '1', '-noGenerateSpecTE', '-deadlock', '-metadir', os.path.join(d, 'meta'),
                            '-dump', 'dot,actionlabels', 'out', 'OutBuf'], cwd=d, capture_output=True, text=True, timeout=600,
                           env=dict(os.environ, JAVA_TOOL_OPTIONS=f'-Djava.io.tmpdir={d}'))    # TLC's own temp dirs too
        if 'No error has been found' not in p.stdout:
            raise RuntimeError('TLC: ' + (p.stdout + p.stderr)[-600:])
        mm = re.search(r'(\d+) states generated, (\d+) distinct states found', p.stdout)
        nodes, edges = _parse_dot(open(os.path.join(d, 'out.dot')).read())
        if len(nodes) != int(mm.group(2)):
            raise RuntimeError(f"dump parse: {len(nodes)} nodes, TLC reports {mm.group(2)}")
        return nodes, edges
    finally:
        shutil.rmtree(d, ignore_errors=True)


def run_tlc_conformance(c):
    """Refinement check: every transition the real BufferedOutput+ByteWriter takes (all action sequences up to MaxOps)
    must be an edge of the TLC-explored state graph of tla/OutBuf.tla with Policy = "any" (flush timing is free: the
    property does not prescribe it).  Informational only: with Policy = "exact" TLC's distinct-state count is compared
    with the number of states the hand-written explorer reaches on the real code."""
    from dliswriter.file.writer import BufferedOutput, ByteWriter
    B, G, K = c['B'], c['G'], c['MaxOps']
    viol = []
    try:
        nodes, edges = _tlc_graph(B, G, K, 'any')
        nodes_x, _ = _tlc_graph(B, G, K, 'exact')
    except RuntimeError as e:
        return Outcome('tlc-failed', [("C10:tlc:harness:model-check-failed", str(e))], False)
    allowed = {(json_key(nodes[u]), a, json_key(nodes[v])) for u, v, a in edges}
    fpath = os.path.join(scratch_dir(), 'tlcmachine.bin')

    def run_actions(actions):
        with open(fpath, 'wb') as f:
            f.write(b'\xee' * G)
        w = ByteWriter(fpath)
        out = BufferedOutput(B, w)
        del FLUSHES[:]                      # the tap on ByteWriter.write_bytes records every physical write
        states = [{'filled': out._filled_size, 'disk': os.path.getsize(fpath), 'opened': len(FLUSHES) > 0, 'n': 0}]
        for j, a in enumerate(actions):
            if a == 'Final':
                out.pass_bytes_to_writer()
            else:
                s_ = int(a[4:-1])
                out.add_bytes(bytes((j * 37 + k) % 251 for k in range(s_)))
            states.append({'filled': out._filled_size, 'disk': os.path.getsize(fpath), 'opened': len(FLUSHES) > 0, 'n': j + 1})
        return states

    init = json_key(run_actions([])[0])
    if init not in {json_key(st) for st in nodes.values() if st['n'] == 0}:
        viol.append(("C10:tlc:initial-state-not-in-model", f"B={B} G={G}: {init}"))
    seen = {init}
    frontier = deque([[]])
    replayed = 0
    while frontier and not viol:
        h = frontier.popleft()
        if len(h) >= K:
            continue
        for a in ('Add(20)', 'Add(22)', 'Add(24)', 'Final'):
            sts = run_actions(h + [a])
            pre, post = json_key(sts[-2]), json_key(sts[-1])
            replayed += 1
            if (pre, a, post) not in allowed:
                viol.append(("C10:tlc:transition-not-allowed-by-model",
                             f"B={B} G={G}: after {h} the real classes go from {pre} to {post} on {a}; the model "
                             f"(tla/OutBuf.tla, Policy any) has no such edge"))
                break
            if post not in seen:
                seen.add(post)
                frontier.append(h + [a])
    same = len(seen) == len(nodes_x)
    return Outcome('tlc:refines:' + ('explorer=TLC' if same else 'flush-policy-differs-from-exact-model'), viol, True,
                   digest=f"{len(nodes)}/{len(edges)}/{len(seen)}",
                   extra={'nodes': len(seen), 'edges': replayed})


def json_key(d):
    return (d['filled'], d['disk'], d['opened'], d['n'])
