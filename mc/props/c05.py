"""C05 — metadata fidelity: what the user sets is what a reader gets."""
from __future__ import annotations

from mc import lattice, spec as S, model as M, rp66 as R
from mc.engine import Outcome, sha
from mc.schema import KINDS
from mc.props import c04

ID = 'C05'
ENGINE = 'E1 choice-point explorer, deviation-bounded over {full, bare} default objects'
RULE = ("same lattice as C04 with value palettes per attribute kind (ints at code edges, floats incl. -0.0, inf, NaN, "
        "max, subnormal, numpy scalars; ASCII lengths 0..300; IDENT up to 255; aware/naive datetimes and both string "
        "formats; enum members and free strings; references) x assignment route {keyword, dict, one dict object re-used for equal values, AttrSetup, later "
        ".value/.units, set_attributes}; plus a plain second write of the untouched objects, and, per attribute, a chain write -> re-assign to every value option in turn -> "
        "write, each file compared with the model; plus a channel inside a frame with data (user DIMENSION / ELEMENT-LIMIT vs the values derived at write time, full product over width, source, topology); non-trivial = file written and every object of the logical file compared "
        "attribute by attribute with the model")
ASSUMPTIONS = ["strict reader mc/rp66.py", "reference model mc/model.py and schema mc/schema.py (labels, kinds, fixed "
               "codes from RP66 V1 ch.5/6)", "units of a value-less attribute are not required in the file",
               "strings that are plain decimal numerals (which the library turns into numbers by design) are outside the alphabet for coordinates/parameter values; texts that merely parse with float() (INF, NAN, 1E5) are inside and must stay texts"]


def shards(tier):
    return [{'kind': k, 'mode': m} for k in KINDS for m in ('full', 'bare')] + \
        [{'kind': k, 'mode': 'rank2'} for k in lattice.RANK2_KINDS] + [{'kind': 'channel', 'mode': 'in-frame'}] + \
        [{'kind': k, 'mode': 'blank-text'} for k in KINDS]


def bound(tier, shard):
    return 1 if tier == 'quick' else 2


def bounds(tier):
    return {'deviation_bound': 1 if tier == 'quick' else 2, 'kinds': len(KINDS), 'routes': lattice.ROUTES}


def reassign_chain(sp, info, shard, kw):
    """Write once, then re-assign attribute ``kw`` of the object under test to each of its value options in turn
    (values of other kinds included: numbers after text, a reference after text, a date-time after a float ...),
    writing and checking the file after every assignment."""
    import os
    from mc.engine import scratch_dir
    from mc.schema import attr_by_kw
    kind = shard['kind']
    ad = attr_by_kw(kind, kw)
    b = S.build(sp)
    if b.failed_at is not None:
        return Outcome('build-raised', [], False)
    path = os.path.join(scratch_dir(), 'c05-chain.dlis')
    wkw = S.write_kwargs(sp, b)
    try:
        b.df.write(path, **wkw)
    except Exception as e:  # noqa
        return Outcome('write-raised', [], False, digest=str(e)[:40])
    viol = []
    ops = list(sp['ops'])
    n_ok = 0
    for opt in lattice.options(kind, ad, 'quick'):
        op = {'op': 'set', 'h': 'T', 'attr': ad.attr, 'part': 'value', 'value': opt}
        if S.apply_op(b, op) != 'ok':
            continue
        ops = ops + [op]
        try:
            b.df.write(path, **wkw)
        except Exception:  # noqa
            continue            # an invalid combination may be refused; the next assignment must still come out right
        n_ok += 1
        try:
            lfs = R.split_logical_files(R.parse_physical(open(path, 'rb').read()))
            m = M.Model(dict(sp, ops=ops))
            for code, d in M.check_inventory(m, m.lfs[0], lfs[0]) + M.check_attrs(m, m.lfs[0], lfs[0]):
                viol.append((f"C05:{code}:after-reassignment", f"{d[:300]} | kind={kind} attribute={kw} re-assigned to "
                                                               f"{repr(opt)[:60]} after earlier writes"))
        except R.FormatError as e:
            viol.append((f"C05:unparsable:{e.code}:after-reassignment", f"{e} | kind={kind} attribute={kw}"))
        if viol:
            break
    return Outcome(f"reassigned:{min(n_ok, 5)}", viol, n_ok > 0, digest=str(n_ok))


def in_frame(ctx):
    """A channel that is part of a frame and has data: DIMENSION and ELEMENT-LIMIT assigned by the user (consistent with
    the data) meet the values derived from the data at write time; what the user assigned must win."""
    from mc.props import c08
    c = {'dtype': ctx.choose('dtype', ['float64', 'uint8'], free=True),
         'topo': ctx.choose('topo', ['plain', 'shared', 'three'], free=True),
         'width': ctx.choose('width', ['s', 1, 3], free=True), 'cast': None,
         'dim': ctx.choose('dimension', ['unset', 'equal'], free=True),
         'el': ctx.choose('element-limit', ['unset', 'equal', 'larger', 'moredims'], free=True),
         'src': ctx.choose('src', ['inline', 'dict', 'struct', 'h5'], free=True)}
    if c['el'] == 'smaller' and c['width'] not in ('s', 1):
        return Outcome('n/a', [], False)
    sp = c08.make_spec(c)
    res = S.run_spec(sp)
    if res['failed_at'] is not None or res['write'] != 'ok':
        why = res['status'][-1] if res['failed_at'] is not None else res['write']
        return Outcome('raised', [("C05:in-frame:raised-on-consistent", f"{why} | {c}")], True, digest=why[:40])
    viol = []
    try:
        lfs = R.split_logical_files(R.parse_physical(res['data']))
        m = M.Model(sp)
        for code, d in M.check_inventory(m, m.lfs[0], lfs[0]) + M.check_attrs(m, m.lfs[0], lfs[0]):
            viol.append((f"C05:in-frame:{code}", f"{d[:300]} | {c}"))
    except R.FormatError as e:
        viol.append((f"C05:unparsable:{e.code}", f"{e} | {c}"))
    return Outcome(f"ok:in-frame:{c['el']}", viol, True, digest=sha(res['data']))


def write_twice(sp, info, shard):
    """The same objects written twice without touching them in between: what the user assigned is still what the second
    file holds (nothing the first write worked out may take its place)."""
    import os
    from mc.engine import scratch_dir
    b = S.build(sp)
    if b.failed_at is not None:
        return Outcome('build-raised', [], False)
    path = os.path.join(scratch_dir(), 'c05-twice.dlis')
    wkw = S.write_kwargs(sp, b)
    try:
        b.df.write(path, **wkw)
        b.df.write(path, **wkw)
    except Exception as e:  # noqa
        return Outcome('write-raised', [], False, digest=str(e)[:40])
    viol = []
    data = open(path, 'rb').read()
    try:
        lfs = R.split_logical_files(R.parse_physical(data))
        m = M.Model(sp)
        for code, d in M.check_inventory(m, m.lfs[0], lfs[0]) + M.check_attrs(m, m.lfs[0], lfs[0]):
            viol.append((f"C05:{code}:second-write-unchanged", f"{d[:300]} | kind={shard['kind']} route={info['route']}"))
    except R.FormatError as e:
        viol.append((f"C05:unparsable:{e.code}:second-write-unchanged", f"{e} | kind={shard['kind']}"))
    return Outcome('ok:written-twice', viol, True, digest=sha(data))


def blank_text(ctx, shard):
    """Texts of length 0 and texts of blanks only are values like any other: full product of {text attribute of the
    kind} x {'', ' ', '   ', (lists holding them)} x assignment route, incl. the blank text assigned over an earlier
    text through set_attributes."""
    kind = shard['kind']
    ads = [ad for ad in lattice.settable(kind) if ad.typ in ('text', 'ident') and not (kind == 'channel' and ad.kw == 'units')]
    if not ads:
        return Outcome('n/a', [], False)
    ad = ctx.choose('attribute', ads, free=True)
    vals = ['', ' ', '   ']
    if ad.multi:
        vals = [[''], [' '], ['', 'x'], ['x', '  ', '']] + vals
    v = ctx.choose('value', vals, free=True)
    route = ctx.choose('route', ['kw', 'dict', 'as', 'setattrs-dict', 'setattrs-as', 'later', 'over-dict', 'over-as', 'over-later'],
                       free=True)
    kw, later = {}, []
    if kind == 'frame':
        kw['channels'] = [lattice.R_('C1')]
    if kind == 'origin':
        kw.update(file_set_number=7, creation_time=lattice.DT0)
    wrap = lambda x, r: {'$dict': {'value': x}} if r.endswith('dict') else {'$as': {'value': x}}
    if route == 'kw':
        kw[ad.kw] = v
    elif route in ('dict', 'as'):
        kw[ad.kw] = wrap(v, route)
    elif route in ('setattrs-dict', 'setattrs-as'):
        later.append({'op': 'setattrs', 'h': 'T', 'kw': {ad.attr: wrap(v, route)}})
    elif route == 'later':
        later.append({'op': 'set', 'h': 'T', 'attr': ad.attr, 'part': 'value', 'value': v})
    else:
        kw[ad.kw] = ['draft', 'text'] if ad.multi and isinstance(v, list) else 'draft'
        if route == 'over-later':
            later.append({'op': 'set', 'h': 'T', 'attr': ad.attr, 'part': 'value', 'value': v})
        else:
            later.append({'op': 'setattrs', 'h': 'T', 'kw': {ad.attr: wrap(v, route)}})
    ops = lattice.base_ops(kind) + [S.op_add(kind, 'T', 'TARGET', **kw)] + later
    sp = {'sul': {'max_record_length': 8192}, 'ops': ops, 'write': {}}
    res = S.run_spec(sp)
    brief = f"kind={kind} attribute={ad.kw} value={v!r} route={route}"
    if res['failed_at'] is not None or res['write'] != 'ok':
        why = res['status'][-1] if res['failed_at'] is not None else res['write']
        return Outcome('blank-text:raised', [], False, digest=why[:40])
    viol = []
    try:
        lfs = R.split_logical_files(R.parse_physical(res['data']))
        m = M.Model(sp)
        for code, d in M.check_inventory(m, m.lfs[0], lfs[0]) + M.check_attrs(m, m.lfs[0], lfs[0]):
            viol.append((f"C05:{code}:blank-text", f"{d[:300]} | {brief}"))
    except R.FormatError as e:
        viol.append((f"C05:unparsable:{e.code}", f"{e} | {brief}"))
    return Outcome(f"ok:blank-text:{route}", viol, True, digest=sha(res['data']))


def body(ctx, shard):
    if shard['mode'] == 'in-frame':
        return in_frame(ctx)
    if shard['mode'] == 'blank-text':
        return blank_text(ctx, shard)
    sp, info = lattice.build_spec(shard['kind'], shard['mode'], ctx, 'quick')
    cand = [ad.kw for ad in lattice.settable(shard['kind']) if ad.kw in info['assigned']
            and not (shard['kind'] == 'frame' and ad.kw == 'channels')
            and not (shard['kind'] == 'origin' and ad.kw == 'file_set_number')]
    re_kw = ctx.choose('reassign-after-write', [None, '__write-twice-unchanged__'] + cand)
    if re_kw == '__write-twice-unchanged__':
        return write_twice(sp, info, shard)
    if re_kw is not None:
        return reassign_chain(sp, info, shard, re_kw)
    res = S.run_spec(sp)
    if res['failed_at'] is not None:
        return Outcome('build-raised', [], False, digest=res['status'][-1][:50])
    if any(res['status'][i] == 'ok' for i in info.get('refused_ops', ())):
        # the assignment meant to be refused was accepted (an attribute that takes anything): outside this alphabet
        return Outcome('refused-reassign-accepted', [], False, digest='accepted')
    if res['write'] != 'ok':
        # the write was rejected: repair the object through the setters, write the same objects again and compare
        # the second file with the model of the repaired specification
        data, sp2 = c04.repaired_rewrite(sp, info, shard)
        if data is None:
            return Outcome('write-raised', [], False, digest=res['write'][:50])
        viol = []
        try:
            lfs = R.split_logical_files(R.parse_physical(data))
            m = M.Model(sp2)
            for code, d in M.check_inventory(m, m.lfs[0], lfs[0]) + M.check_attrs(m, m.lfs[0], lfs[0]):
                viol.append((f"C05:{code}:write-after-rejected-write", f"{d[:300]} | first write: {res['write'][:80]} | "
                                                                       f"kind={shard['kind']}"))
        except R.FormatError as e:
            viol.append((f"C05:unparsable:{e.code}:write-after-rejected-write", f"{e} | {shard}"))
        return Outcome('write-raised:repaired-and-rewritten', viol, True, digest=sha(data))
    viol = []
    if res.get('caller_dicts_changed'):
        viol.append(("C05:caller-dict-changed", f"a dict passed as attribute set-up lost keys: {res['caller_dicts_changed'][:2]} | "
                                                f"kind={shard['kind']}"))
    try:
        lfs = R.split_logical_files(R.parse_physical(res['data']))
        m = M.Model(sp)
        errs = M.check_inventory(m, m.lfs[0], lfs[0]) + M.check_attrs(m, m.lfs[0], lfs[0])
        for code, d in errs:
            sig = f"C05:{code}"
            if code.startswith('units') and any(isinstance(u, dict) for u in info['units'].values()):
                sig += ':enum-member'
            viol.append((sig, f"{d[:300]} | kind={shard['kind']} route={info['route']} position={info['position']}"))
    except R.FormatError as e:
        viol.append((f"C05:unparsable:{e.code}", f"{e} | {shard} {info['route']}"))
    return Outcome(f"ok:{info['route']}:{info['position']}", viol, True, digest=sha(res['data']))


def _where(d):
    """SETTYPE.LABEL of the mismatch, so that signatures name the attribute (call site) that fails."""
    head = d.split(':', 2)
    if len(head) >= 2 and '.' in head[1].split(' ')[0]:
        return head[0] + '.' + head[1].split('.', 1)[1].split(':')[0].split(' ')[0]
    return head[0]
