"""C04 — every explicitly formatted record decodes under the RP66 component grammar."""
from __future__ import annotations

from mc import lattice, spec as S, model as M, rp66 as R
from mc.engine import Outcome, sha
from mc.schema import KINDS

ID = 'C04'
ENGINE = 'E1 choice-point explorer, deviation-bounded over {full, bare} default objects'
RULE = ("per (object kind, base mode) shard: every attribute x every value/multiplicity option (unset, scalar, [], "
        "1, 2, 128, 200 values, nested lists) x units x assignment route x named/unnamed set x position in the set, up "
        "to the deviation bound; when the write of such an object is rejected, the object is repaired through the "
        "setters and written again (the second file must decode too); non-trivial = file written and every EFLR parsed under the strict component grammar "
        "and cross-checked against the model's object and attribute counts")
ASSUMPTIONS = ["strict component parser mc/rp66.py", "reference model mc/model.py for the object/attribute count "
               "cross-check"]


def shards(tier):
    return [{'kind': k, 'mode': m} for k in KINDS for m in ('full', 'bare')] + \
        [{'kind': k, 'mode': 'rank2'} for k in lattice.RANK2_KINDS]


def bound(tier, shard):
    return 1 if tier == 'quick' else 2


def bounds(tier):
    return {'deviation_bound': 1 if tier == 'quick' else 2, 'kinds': len(KINDS), 'base_modes': ['full', 'bare']}


def body(ctx, shard):
    sp, info = lattice.build_spec(shard['kind'], shard['mode'], ctx, 'quick')
    return check(sp, info, shard)


def grammar_errors(data, sp):
    """Strict parse of every EFLR + cross-check of set/object counts with the model."""
    errs = []
    phys = R.parse_physical(data)
    sets = []
    for i, r in enumerate(phys.records):
        if r.is_eflr:
            try:
                sets.append(R.parse_eflr(r.body))
            except R.FormatError as e:
                errs.append((e.code, f"EFLR record {i} (type {r.type}, starts {r.body[:24]!r}): {e}"))
    if errs:
        return errs
    m = M.Model(sp)
    mlf = m.lfs[0]
    for (k, sn), lst in mlf.sets.items():
        st = KINDS[k]['set_type']
        match = [s for s in sets if s.type == st and s.name == (sn or None)]
        if len(match) != 1:
            errs.append(('set_count', f"{len(match)} sets ({st}, {sn!r}) in file"))
            continue
        s = match[0]
        if len(s.objects) != len(lst):
            errs.append(('object_count', f"set ({st}, {sn!r}): {len(s.objects)} objects in file, {len(lst)} defined"))
        want_labels = [ad.label for ad in KINDS[k]['attrs']]
        got_labels = [t.label for t in s.template]
        if got_labels != want_labels:
            errs.append(('template_labels', f"set {st}: template {got_labels} != standard attribute list {want_labels}"))
        for ob in s.objects:
            for a in ob.attrs:
                if not a.absent and a.e_values is not None and len(a.e_values) != a.e_count:
                    errs.append(('value_count', f"{st}:{ob.name.name}.{a.e_label}: count {a.e_count}, "
                                                f"{len(a.e_values)} values"))
    return errs


def repaired_rewrite(sp, info, shard):
    """The write was rejected: give every assigned attribute of the object under test its valid default through the
    public setters and write the same objects again. Returns (bytes | None, repaired spec)."""
    import os
    from mc.engine import scratch_dir
    kind = shard['kind']
    b = S.build(sp)
    if b.failed_at is not None:
        return None, None
    path = os.path.join(scratch_dir(), 'c04-retry.dlis')
    try:
        b.df.write(path, **S.write_kwargs(sp, b))
        return None, None           # not deterministic?! (the first attempt raised) - let the caller ignore it
    except Exception:  # noqa
        pass
    repair = []
    for ad in lattice.settable(kind):
        if ad.kw in info['assigned'] and not (kind == 'frame' and ad.kw == 'channels'):
            opts = lattice.options(kind, ad, 'quick')
            d0 = lattice.FULL_OVERRIDES.get((kind, ad.kw), opts[0])
            if shard['mode'] == 'rank2':
                d0 = lattice.RANK2_OVERRIDES.get((kind, ad.kw), d0)
            if kind == 'origin' and ad.kw == 'file_set_number':
                continue
            repair.append({'op': 'set', 'h': 'T', 'attr': ad.attr, 'part': 'value', 'value': d0})
    for op in repair:
        if S.apply_op(b, op) != 'ok':
            return None, None
    try:
        b.df.write(path, **S.write_kwargs(sp, b))
    except Exception:  # noqa
        return None, None
    return open(path, 'rb').read(), dict(sp, ops=sp['ops'] + repair)


def check(sp, info, shard):
    res = S.run_spec(sp)
    if res['failed_at'] is not None:
        return Outcome('build-raised', [], False, digest=res['status'][-1][:50])
    if any(res['status'][i] == 'ok' for i in info.get('refused_ops', ())):
        # the assignment meant to be refused was accepted (an attribute that takes anything): outside this alphabet
        return Outcome('refused-reassign-accepted', [], False, digest='accepted')
    if res['write'] != 'ok':
        data, sp2 = repaired_rewrite(sp, info, shard)
        if data is None:
            return Outcome('write-raised', [], False, digest=res['write'][:50])
        viol = []
        try:
            for code, d in grammar_errors(data, sp2):
                viol.append((f"C04:{code}:write-after-rejected-write", f"{d[:300]} | first write: {res['write'][:80]} | "
                                                                       f"kind={shard['kind']} assigned={_brief(info)}"))
        except R.FormatError as e:
            viol.append((f"C04:physical:{e.code}:write-after-rejected-write", f"{e} | {shard}"))
        return Outcome('write-raised:repaired-and-rewritten', viol, True, digest=sha(data))
    viol = []
    try:
        for code, d in grammar_errors(res['data'], sp):
            tag = _tag(info)
            sig = "C04:desync:empty-list-value" if tag == 'empty-list-value' else f"C04:{code}"
            viol.append((sig, f"{d[:400]} | kind={shard['kind']} assigned={_brief(info)}"))
    except R.FormatError as e:
        viol.append((f"C04:physical:{e.code}", f"{e} | {shard}"))
    return Outcome(f"ok:{info['route']}:{info['position']}", viol, True, digest=sha(res['data']))


def _has_empty(v):
    if isinstance(v, list):
        return len(v) == 0
    return False


def _tag(info):
    if any(_has_empty(v) for v in info['assigned'].values()):
        return 'empty-list-value'
    return 'other'


def _brief(info):
    out = {}
    for k, v in info['assigned'].items():
        s = repr(v)
        out[k] = s if len(s) < 60 else s[:57] + '...'
    return {'assigned': out, 'units': info['units'], 'route': info['route'], 'position': info['position']}
