"""Regenerate /verif/MANIFEST.json from the table below (keeps the manifest valid at all times)."""
import json
import os

VERIF = os.path.dirname(os.path.dirname(os.path.abspath(__file__)))

BASE_NOTE = ("Trusted base: the independent strict RP66 V1 reader mc/rp66.py (self-tested at the start of every run "
             "against hand-assembled standard examples and a negative corpus), the plain-data reference model "
             "mc/model.py + mc/schema.py, numpy astype for declared casts. Small-scope claim: holds for every "
             "execution inside the stated bounds; every execution runs the real code imported from /repo/src.")

CHECKS = {
    'C01': ("E1: exhaustive enumeration of (record length, body length, record class, chunk) on the real writer; "
            "strict framing oracle",
            "Bounded-exhaustive exploration of the real DLISWriter/LogicalRecordBytes/StorageUnitLabel: every accepted "
            "record length of the tier x every body length in a window covering every branch of the splitting "
            "arithmetic x record classes x output chunk sizes, plus ordered pairs/triples; each file is parsed by the "
            "strict framing parser. Unit tests cannot reach this because the defects live at single (capacity, length) "
            "residues.", '5/C01'),
    'C02': ("E1: exhaustive enumeration of record sequences on the real segmenter; reassembly compared with the given "
            "records", "Same writer-level product as C01 with position-dependent bodies and sequences of 1-3 records of "
            "different LogicalRecord classes; the reassembled file must equal the list of records given (count, order, "
            "bytes, flags, type on every segment, bracketing).", '5/C02'),
    'C03': ("E1 choice-point explorer (full product on first channel, deviation-bounded elsewhere) on the real write "
            "path; rows compared bit for bit",
            "Stateless exploration of frame specifications: dtype x byte order x shape x memory layout x cast x rows x "
            "chunking x record length x source kind; expected row bytes are computed from integer bit patterns.", '5/C03'),
    'C04': ("E1 choice-point explorer over the object/attribute lattice; strict component-grammar parser",
            "Deviation-bounded exploration over all 21 object kinds x every attribute x value multiplicity x units x "
            "route x set naming x position; every EFLR must parse under the strict grammar and agree with the model's "
            "object/attribute counts.", '5/C04'),
    'C05': ("E1 choice-point explorer over the object/attribute lattice; decoded objects compared with the reference "
            "model", "Same lattice as C04 with value palettes and five assignment routes; every assigned value/unit must "
            "decode equal (floats by bit pattern, date-times as UTC instants, references as identities), unassigned "
            "attributes absent except documented defaults.", '5/C05'),
    'C06': ("E1: exhaustive enumeration of per-code value domains through write_struct; independent decoder",
            "Whole finite domains (UVARI 0..16511 and all boundaries, 8/16-bit ranges completely, 32-bit edges, string "
            "lengths 0..300 and UVARI boundaries, 60k date-times, OBNAME/OBJREF field boundaries), cold cache per value "
            "plus warm-cache ordered pairs of ==-equal values.", '5/C06'),
    'C15': ("E1: exhaustive enumeration of body lengths incl. < 12 at every record length + end-to-end size ladder",
            "Every record length of the tier x every body length 1..60 and around multiples of the capacity must be "
            "written successfully and parse strictly; end-to-end ladder over row widths, name lengths and payload "
            "sizes.", '5/C15'),
    'C16': ("E1: exhaustive enumeration of payload sequences; type-1 IFLRs compared with supplied payloads",
            "All payload lengths 0..40 and around record capacity x kinds x tails x name lengths x record lengths, and all "
            "ordered sequences of 2-3 payloads over 1-2 NO-FORMAT objects.", '5/C16'),
    'C07': ("E2: explicit-state BFS over add_* histories on the real builder API; decoded identities and references "
            "compared with the model", "Breadth-first search over histories of add_* events (origins with/without explicit "
            "reference at any position, same-named objects within and across types, default and named sets); every "
            "state is completed, written, strictly decoded and checked for unique identities, resolvable references and "
            "origin membership.", '5/C07'),
    'C08': ("E1: full product of channel layouts and user-supplied DIMENSION/ELEMENT-LIMIT; descriptors read from the "
            "file must slice every record", "Full product dtype x width x cast x user dimension x user element limit x "
            "frame topology x source; inconsistent user values must raise, otherwise code, DIMENSION, ELEMENT-LIMIT and "
            "record length are checked from the file alone.", '5/C08'),
    'C09': ("E2-style exhaustive enumeration of add_* histories + E1 product of header parameters; record-order oracle",
            "Every add_* history up to the depth bound plus header parameter products over 1-3 logical files; the "
            "reassembled record sequence must be header, origin set(s), other sets once each, then data.", '5/C09'),
    'C10': ("E2: explicit-state search of the real BufferedOutput/ByteWriter machine with state merging + E3 flush-point "
            "enumeration end-to-end", "Every buffer size x every add-size sequence (merged states) on the real buffer "
            "machine, and end-to-end every output chunk size from the record length to the file size, every input "
            "chunk size, prior target content; every physical write is a crash point at which the on-disk bytes must "
            "be a record-aligned prefix of the final file.", '5/C10'),
    'C11': ("E1: full product of sources, mappings, permutations, windows and chunks; differential against the inline "
            "write of pre-sliced arrays", "All four data-source kinds x dataset-name mapping x field order x extra "
            "datasets x all windows x chunk sizes must give the byte-identical file.", '5/C11'),
    'C12': ("E1: one invalid/degenerate aspect x valid context per family; raise-or-faithful oracle",
            "Ten families of invalid or degenerate inputs on two valid contexts; unrepresentable inputs must raise, any "
            "file that is written must pass the strict parse, the grammar and the full model comparison.", '5/C12'),
    'C13': ("E1 full product of index channels x E2 histories (write; write); exact-arithmetic oracle",
            "Index dtype x pattern x rows x window x user-supplied values x index type, and second writes with another "
            "window, other data, another dtype; INDEX-MIN/MAX, SPACING, DIRECTION compared with Fractions.", '5/C13'),
    'C14': ("E2: explicit-state BFS over process histories; differential against a fresh interpreter",
            "Histories of file(S_i), rewrite, mutate-and-rewrite and mode events over a pool of specifications that "
            "collide in every per-process cache, process-global state not reset inside a history; the last write must "
            "equal a fresh interpreter's.", '5/C14'),
    'C17': ("E2: BFS over context-manager histories with a stack model + E1 product of restricted aspects inside / "
            "outside the mode", "Flag compared with a stack model after every event of every history; each restricted "
            "aspect violated alone must raise inside (also nested, after exceptions) and be accepted with a WARNING "
            "outside; conforming files are checked against all restrictions at once.", '5/C17'),
    'C18': ("E2-style exhaustive interleaving of per-logical-file add_* sequences + E1 product of frame layouts",
            "All interleavings of 2-3 logical files' add_* sequences x set-name assignment; shared-set configurations "
            "must raise, all others are compared per logical file with the model; 1-3 frames with different row counts "
            "and colliding channel names.", '5/C18'),
    'C19': ("E1: full product of data layouts and sources with before/after snapshots of every caller buffer",
            "Root buffers of all arrays (incl. memory around views), dict keys/values, structured arrays and the HDF5 "
            "file are hashed before and after valid and failing writes.", '5/C19'),
    'C20': ("E2: explicit-state BFS over histories of valid and rejected calls + failing-write sequences; differential "
            "oracle", "The file of a history must equal the file of the same history without its rejected calls; "
            "failing writes followed by a repaired write must equal a fresh specification's write.", '5/C20'),
}

NOT_YET = {}


def main() -> None:
    props = [json.loads(l)['id'] for l in open(os.path.join(VERIF, 'properties.jsonl'))]
    checks = []
    for pid in props:
        if pid in CHECKS:
            tech, text, ref = CHECKS[pid]
            checks.append({
                'property_id': pid,
                'quick_cmd': f'./check {pid} quick',
                'thorough_cmd': f'./check {pid} thorough',
                'evidence_file': f'/verif/evidence/{pid}.json',
                'replay_cmd_template': f'./check {pid} --replay {{path}}',
                'engine': 'mc-engine',
                'level_claimed': {'category': 'model_checking', 'text': text, 'design_ref': f'DESIGN.md §{ref}'},
                'level_note': BASE_NOTE,
                'technique': 'bounded-exhaustive model checking of the implementation: ' + tech,
            })
    na = [{'property_id': p, 'reason': NOT_YET.get(p, 'check not built yet (work in progress); not claimed')}
          for p in props if p not in CHECKS]
    man = {
        'version': 1,
        'setup_cmd': 'cd /verif && /venv/bin/python -B -c "import sys; sys.path.insert(0, \'/verif\'); '
                     'from mc import selftest_rp66, selftest_dlisio; selftest_rp66.run(); selftest_dlisio.run()"',
        'hooks': {'guard': 'WELL_ID_DLISWRITER_VERIF',
                  'enable': 'none needed: checks import /repo/src directly and observe from outside (file bytes, '
                            'exceptions, monkeypatched taps installed by the harness); the guard variable is set but no '
                            'guarded code exists in /repo',
                  'baseline_off_cmd': 'cd /repo && /venv/bin/python -m pytest -ra -q -p no:cacheprovider --timeout=900 '
                                      '--continue-on-collection-errors',
                  'source_commits': [], 'add_only': True},
        'engines': [{'name': 'mc-engine', 'path': '/verif/mc/engine.py', 'serves_properties': sorted(CHECKS),
                     'kind_free_text': 'hand-written explicit-state / stateless explorer for Python: E1 choice-point '
                                       'DFS with deviation bound, E2 layered BFS over API histories with canonical '
                                       'state hashing, E3 flush-point enumeration; 16 spawn workers'}],
        'checks': checks,
        'not_applicable': na,
        'notes': 'All checks: /venv/bin/python, dliswriter imported from /repo/src working tree. Exit 0 ok, 1 '
                 'VIOLATION, 2 harness error / nondeterminism.',
    }
    with open(os.path.join(VERIF, 'MANIFEST.json'), 'w') as f:
        json.dump(man, f, indent=1)


if __name__ == '__main__':
    main()
