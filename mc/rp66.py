"""Strict, independent RP66 V1 (DLIS) reader used as the oracle of the model-checking harnesses.

Written from the RP66 V1 text; imports nothing from dliswriter and needs no numpy.  It *rejects* everything a tolerant
reader (dlisio) lets through: odd lengths, short segments, wrong pad counts, trailing bytes, over-long records,
unknown representation codes, counts that do not match the values present, duplicate or empty labels.

Layers
  parse_physical(data)  -> Physical: storage unit label, visible records, segments, reassembled logical records
  parse_eflr(body)      -> EflrSet : set component, template, objects with attribute components
  decode_value(code, b, pos) -> (value, raw bytes, new pos) for every representation code 1..27
  split_logical_files / index helpers for the semantic checks
"""
from __future__ import annotations

import struct
from dataclasses import dataclass, field
from datetime import datetime, timedelta, timezone
from typing import Any, Optional


class FormatError(Exception):
    """A violation of the RP66 V1 format (code = short machine-readable reason)."""

    def __init__(self, code: str, msg: str = "", offset: Optional[int] = None):
        super().__init__(f"{code}: {msg}" + (f" @ {offset}" if offset is not None else ""))
        self.code = code
        self.msg = msg
        self.offset = offset


# ---------------------------------------------------------------------------------------------------------------------
# representation codes
# ---------------------------------------------------------------------------------------------------------------------
FSHORT, FSINGL, FSING1, FSING2, ISINGL, VSINGL, FDOUBL, FDOUB1, FDOUB2, CSINGL, CDOUBL = range(1, 12)
SSHORT, SNORM, SLONG, USHORT, UNORM, ULONG, UVARI, IDENT, ASCII, DTIME, ORIGIN, OBNAME, OBJREF, ATTREF, STATUS, UNITS = \
    range(12, 28)

CODE_NAMES = {1: 'FSHORT', 2: 'FSINGL', 3: 'FSING1', 4: 'FSING2', 5: 'ISINGL', 6: 'VSINGL', 7: 'FDOUBL', 8: 'FDOUB1',
              9: 'FDOUB2', 10: 'CSINGL', 11: 'CDOUBL', 12: 'SSHORT', 13: 'SNORM', 14: 'SLONG', 15: 'USHORT',
              16: 'UNORM', 17: 'ULONG', 18: 'UVARI', 19: 'IDENT', 20: 'ASCII', 21: 'DTIME', 22: 'ORIGIN', 23: 'OBNAME',
              24: 'OBJREF', 25: 'ATTREF', 26: 'STATUS', 27: 'UNITS'}

FIXED_SIZE = {FSHORT: 2, FSINGL: 4, FSING1: 8, FSING2: 12, ISINGL: 4, VSINGL: 4, FDOUBL: 8, FDOUB1: 16, FDOUB2: 24,
              CSINGL: 8, CDOUBL: 16, SSHORT: 1, SNORM: 2, SLONG: 4, USHORT: 1, UNORM: 2, ULONG: 4, DTIME: 8, STATUS: 1}

_FIXED_FMT = {FSINGL: '>f', FSING1: '>ff', FSING2: '>fff', FDOUBL: '>d', FDOUB1: '>dd', FDOUB2: '>ddd', CSINGL: '>ff',
              CDOUBL: '>dd', SSHORT: '>b', SNORM: '>h', SLONG: '>i', USHORT: '>B', UNORM: '>H', ULONG: '>I'}


def _need(b: bytes, pos: int, n: int, what: str) -> None:
    if pos + n > len(b):
        raise FormatError('truncated', f"{what}: need {n} bytes at {pos}, have {len(b) - pos}", pos)


def decode_uvari(b: bytes, pos: int) -> tuple[int, int]:
    _need(b, pos, 1, 'UVARI')
    b0 = b[pos]
    if b0 < 0x80:
        return b0, pos + 1
    if b0 < 0xC0:
        _need(b, pos, 2, 'UVARI')
        return ((b0 & 0x3F) << 8) | b[pos + 1], pos + 2
    _need(b, pos, 4, 'UVARI')
    return ((b0 & 0x3F) << 24) | (b[pos + 1] << 16) | (b[pos + 2] << 8) | b[pos + 3], pos + 4


def _decode_text(b: bytes, pos: int, n: int, what: str) -> tuple[str, int]:
    _need(b, pos, n, what)
    raw = b[pos:pos + n]
    try:
        s = raw.decode('ascii')
    except UnicodeDecodeError:
        raise FormatError('non_ascii', f"{what} holds non-ASCII bytes {raw!r}", pos)
    return s, pos + n


def decode_ident(b: bytes, pos: int, what: str = 'IDENT') -> tuple[str, int]:
    """IDENT / UNITS: one USHORT length byte followed by that many ASCII characters."""
    _need(b, pos, 1, what)
    n = b[pos]
    return _decode_text(b, pos + 1, n, what)


def decode_ascii(b: bytes, pos: int) -> tuple[str, int]:
    n, pos = decode_uvari(b, pos)
    return _decode_text(b, pos, n, 'ASCII')


@dataclass(frozen=True)
class ObName:
    origin: int
    copy: int
    name: str

    def __repr__(self) -> str:
        return f"<{self.origin},{self.copy},{self.name!r}>"


@dataclass(frozen=True)
class ObjRef:
    type: str
    obname: ObName


@dataclass(frozen=True)
class AttRef:
    type: str
    obname: ObName
    label: str


def decode_obname(b: bytes, pos: int) -> tuple[ObName, int]:
    origin, pos = decode_uvari(b, pos)
    _need(b, pos, 1, 'OBNAME copy')
    copy = b[pos]
    name, pos = decode_ident(b, pos + 1, 'OBNAME name')
    return ObName(origin, copy, name), pos


def decode_dtime(b: bytes, pos: int) -> tuple[dict, int]:
    _need(b, pos, 8, 'DTIME')
    y, tzm, d, h, mn, s, ms = struct.unpack('>BBBBBBH', b[pos:pos + 8])
    tz, month = tzm >> 4, tzm & 0x0F
    if not (1 <= month <= 12):
        raise FormatError('dtime_range', f"month {month}", pos)
    if tz > 2:
        raise FormatError('dtime_range', f"time zone code {tz}", pos)
    if not (1 <= d <= 31 and h <= 23 and mn <= 59 and s <= 59 and ms <= 999):
        raise FormatError('dtime_range', f"d={d} h={h} mn={mn} s={s} ms={ms}", pos)
    try:
        dt = datetime(1900 + y, month, d, h, mn, s, ms * 1000)
    except ValueError as exc:
        raise FormatError('dtime_range', str(exc), pos)
    return {'tz': tz, 'dt': dt}, pos + 8


def _fshort(raw: bytes) -> float:
    v = struct.unpack('>h', raw)[0]
    e = v & 0x000F
    m = (v >> 4)  # sign-extended 12-bit two's complement fraction
    return (m / 2048.0) * (2.0 ** e)


def _isingl(raw: bytes) -> float:
    v = struct.unpack('>I', raw)[0]
    sign = -1.0 if v >> 31 else 1.0
    e = (v >> 24) & 0x7F
    m = v & 0x00FFFFFF
    return sign * (m / float(1 << 24)) * (16.0 ** (e - 64))


def _vsingl(raw: bytes) -> float:
    w = raw[1::-1] + raw[3:1:-1]  # VAX word order
    v = struct.unpack('>I', w)[0]
    sign = -1.0 if v >> 31 else 1.0
    e = (v >> 23) & 0xFF
    m = v & 0x007FFFFF
    if e == 0:
        return 0.0
    return sign * (0.5 + m / float(1 << 24)) * (2.0 ** (e - 128))


def decode_value(code: int, b: bytes, pos: int) -> tuple[Any, bytes, int]:
    """Decode one value of the given representation code. Returns (value, raw bytes consumed, new position)."""

    start = pos
    if code in _FIXED_FMT:
        n = FIXED_SIZE[code]
        _need(b, pos, n, CODE_NAMES[code])
        t = struct.unpack(_FIXED_FMT[code], b[pos:pos + n])
        v: Any = t[0] if len(t) == 1 else t
        pos += n
    elif code == FSHORT:
        _need(b, pos, 2, 'FSHORT'); v = _fshort(b[pos:pos + 2]); pos += 2
    elif code == ISINGL:
        _need(b, pos, 4, 'ISINGL'); v = _isingl(b[pos:pos + 4]); pos += 4
    elif code == VSINGL:
        _need(b, pos, 4, 'VSINGL'); v = _vsingl(b[pos:pos + 4]); pos += 4
    elif code in (UVARI, ORIGIN):
        v, pos = decode_uvari(b, pos)
    elif code in (IDENT, UNITS):
        v, pos = decode_ident(b, pos, CODE_NAMES[code])
    elif code == ASCII:
        v, pos = decode_ascii(b, pos)
    elif code == DTIME:
        v, pos = decode_dtime(b, pos)
    elif code == OBNAME:
        v, pos = decode_obname(b, pos)
    elif code == OBJREF:
        t, pos = decode_ident(b, pos, 'OBJREF type')
        o, pos = decode_obname(b, pos)
        v = ObjRef(t, o)
    elif code == ATTREF:
        t, pos = decode_ident(b, pos, 'ATTREF type')
        o, pos = decode_obname(b, pos)
        lab, pos = decode_ident(b, pos, 'ATTREF label')
        v = AttRef(t, o, lab)
    elif code == STATUS:
        _need(b, pos, 1, 'STATUS')
        v = b[pos]
        if v not in (0, 1):
            raise FormatError('status_range', f"STATUS value {v}", pos)
        pos += 1
    else:
        raise FormatError('unknown_code', f"representation code {code} is not defined", pos)
    return v, bytes(b[start:pos]), pos


# ---------------------------------------------------------------------------------------------------------------------
# physical layer
# ---------------------------------------------------------------------------------------------------------------------
@dataclass
class Segment:
    offset: int          # offset of the segment header in the file
    vr_index: int
    length: int          # declared length, header included
    attr: int
    type: int
    body: bytes          # body without header and without pad bytes
    pad: int             # number of pad bytes removed

    @property
    def is_eflr(self) -> bool: return bool(self.attr & 0x80)
    @property
    def has_pred(self) -> bool: return bool(self.attr & 0x40)
    @property
    def has_succ(self) -> bool: return bool(self.attr & 0x20)


@dataclass
class Record:
    is_eflr: bool
    type: int
    body: bytes
    segments: list[int] = field(default_factory=list)   # indices into Physical.segments


@dataclass
class Physical:
    sul: dict
    vrs: list[tuple[int, int]]      # (offset, length)
    segments: list[Segment]
    records: list[Record]


def parse_sul(data: bytes) -> dict:
    if len(data) < 80:
        raise FormatError('sul_short', f"file has {len(data)} bytes, storage unit label needs 80", 0)
    raw = data[:80]
    if any(c < 0x20 or c > 0x7E for c in raw):
        raise FormatError('sul_non_ascii', f"label holds non-printable bytes: {raw!r}", 0)
    s = raw.decode('ascii')
    seq, ver, struc, mrl, ssi = s[0:4], s[4:9], s[9:15], s[15:20], s[20:80]
    if not seq.strip().isdigit() or seq != seq.strip().rjust(4) or int(seq) < 1:
        raise FormatError('sul_seq', f"sequence number field {seq!r} is not a right-justified positive integer", 0)
    if ver != 'V1.00':
        raise FormatError('sul_version', f"version field {ver!r}", 4)
    if struc != 'RECORD':
        raise FormatError('sul_structure', f"structure field {struc!r}", 9)
    if not mrl.strip().isdigit() or mrl != mrl.strip().rjust(5):
        raise FormatError('sul_maxlen', f"maximum record length field {mrl!r} is not a right-justified integer", 15)
    m = int(mrl)
    if m != 0 and not (20 <= m <= 16384):
        raise FormatError('sul_maxlen', f"maximum record length {m} outside 20..16384", 15)
    return {'seq': int(seq), 'version': ver, 'structure': struc, 'maxlen': m, 'setid': ssi}


def parse_physical(data: bytes, require_complete_last_record: bool = True) -> Physical:
    """Strictly parse label, visible records and segments and reassemble logical records."""

    data = bytes(data)
    sul = parse_sul(data)
    maxlen = sul['maxlen']
    pos = 80
    vrs: list[tuple[int, int]] = []
    segments: list[Segment] = []
    records: list[Record] = []
    cur: Optional[Record] = None

    while pos < len(data):
        if pos + 4 > len(data):
            raise FormatError('trailing_bytes', f"{len(data) - pos} stray bytes after the last visible record", pos)
        vlen = (data[pos] << 8) | data[pos + 1]
        if data[pos + 2] != 0xFF or data[pos + 3] != 0x01:
            raise FormatError('vr_marker', f"format version bytes {data[pos + 2:pos + 4].hex()} != ff01", pos + 2)
        if vlen % 2:
            raise FormatError('vr_odd', f"visible record length {vlen} is odd", pos)
        if vlen < 20:
            raise FormatError('vr_short', f"visible record length {vlen} < 20", pos)
        if maxlen and vlen > maxlen:
            raise FormatError('vr_long', f"visible record length {vlen} > declared maximum {maxlen}", pos)
        if vlen > 16384:
            raise FormatError('vr_long', f"visible record length {vlen} > 16384", pos)
        if pos + vlen > len(data):
            raise FormatError('vr_truncated', f"visible record of {vlen} bytes runs past end of file", pos)
        vr_index = len(vrs)
        vrs.append((pos, vlen))
        end = pos + vlen
        p = pos + 4
        while p < end:
            if p + 4 > end:
                raise FormatError('seg_tiling', f"{end - p} bytes left in visible record, too few for a segment", p)
            slen = (data[p] << 8) | data[p + 1]
            attr, typ = data[p + 2], data[p + 3]
            if slen % 2:
                raise FormatError('seg_odd', f"segment length {slen} is odd", p)
            if slen < 16:
                raise FormatError('seg_short', f"segment length {slen} < 16", p)
            if p + slen > end:
                raise FormatError('seg_tiling', f"segment of {slen} bytes crosses the visible record end", p)
            if attr & 0x10:
                raise FormatError('seg_encrypted', "encryption bit set", p)
            if attr & 0x08:
                raise FormatError('seg_encpacket', "encryption packet bit set", p)
            if attr & 0x04:
                raise FormatError('seg_checksum', "checksum bit set", p)
            if attr & 0x02:
                raise FormatError('seg_trailing_length', "trailing length bit set", p)
            body = data[p + 4:p + slen]
            pad = 0
            if attr & 0x01:
                pad = body[-1]
                if pad < 1 or pad > len(body):
                    raise FormatError('seg_padcount', f"pad count {pad} impossible for a body of {len(body)} bytes", p)
                body = body[:-pad]
            seg = Segment(p, vr_index, slen, attr, typ, body, pad)
            si = len(segments)
            segments.append(seg)
            # --- reassembly
            if cur is None:
                if seg.has_pred:
                    raise FormatError('seg_bracket', "first segment of a record has the predecessor bit set", p)
                cur = Record(seg.is_eflr, seg.type, b'', [])
            else:
                if not seg.has_pred:
                    raise FormatError('seg_bracket', "continuation segment lacks the predecessor bit "
                                                     "(previous segment announced a successor)", p)
                if seg.is_eflr != cur.is_eflr:
                    raise FormatError('seg_structure', "EFLR bit differs between segments of one record", p)
                if seg.type != cur.type:
                    raise FormatError('seg_type', f"record type {seg.type} differs from first segment's {cur.type}", p)
            cur.body += body
            cur.segments.append(si)
            if not seg.has_succ:
                records.append(cur)
                cur = None
            p += slen
        pos = end

    if cur is not None and require_complete_last_record:
        raise FormatError('seg_bracket', "file ends inside a logical record (successor bit set on last segment)",
                          len(data))
    return Physical(sul, vrs, segments, records)


# ---------------------------------------------------------------------------------------------------------------------
# EFLR component grammar
# ---------------------------------------------------------------------------------------------------------------------
@dataclass
class Attr:
    label: Optional[str]            # only in templates
    count: Optional[int]            # explicit count or None
    code: Optional[int]             # explicit code or None
    units: Optional[str]            # explicit units or None
    values: Optional[list]          # decoded values when the value bit is set
    raw: Optional[list]             # raw bytes of each value
    absent: bool = False            # ABSATR component
    # effective (after template defaults) -- filled for object attributes
    e_label: Optional[str] = None
    e_count: int = 1
    e_code: int = IDENT
    e_units: Optional[str] = None
    e_values: Optional[list] = None
    e_raw: Optional[list] = None


@dataclass
class Obj:
    name: ObName
    attrs: list[Attr]               # len <= len(template); missing trailing ones = template defaults

    def get(self, label: str) -> Optional[Attr]:
        for a in self.attrs:
            if a.e_label == label:
                return a
        return None


@dataclass
class EflrSet:
    type: str
    name: Optional[str]
    template: list[Attr]
    objects: list[Obj]


def _parse_attr_component(b: bytes, pos: int, desc: int, in_template: bool,
                          tmpl: Optional[Attr]) -> tuple[Attr, int]:
    has_label, has_count, has_code, has_units, has_value = (bool(desc & 0x10), bool(desc & 0x08), bool(desc & 0x04),
                                                           bool(desc & 0x02), bool(desc & 0x01))
    label = None
    if has_label:
        if not in_template:
            raise FormatError('eflr_label_in_object', "attribute component of an object carries a label", pos)
        label, pos = decode_ident(b, pos, 'attribute label')
    elif in_template:
        raise FormatError('eflr_template_label', "template attribute without label", pos)
    count = None
    if has_count:
        count, pos = decode_uvari(b, pos)
    code = None
    if has_code:
        _need(b, pos, 1, 'representation code')
        code = b[pos]
        if code not in CODE_NAMES:
            raise FormatError('unknown_code', f"representation code {code} is not defined", pos)
        pos += 1
    units = None
    if has_units:
        units, pos = decode_ident(b, pos, 'UNITS')
    e_count = count if count is not None else (tmpl.e_count if tmpl else 1)
    e_code = code if code is not None else (tmpl.e_code if tmpl else IDENT)
    e_units = units if units is not None else (tmpl.e_units if tmpl else None)
    values = raw = None
    if has_value:
        if e_count == 0:
            raise FormatError('eflr_value_count', "value announced although the count is 0", pos)
        values, raw = [], []
        for _ in range(e_count):
            v, r, pos = decode_value(e_code, b, pos)
            values.append(v)
            raw.append(r)
    a = Attr(label, count, code, units, values, raw)
    a.e_label = label if in_template else (tmpl.e_label if tmpl else None)
    a.e_count, a.e_code, a.e_units = e_count, e_code, e_units
    if has_value:
        a.e_values, a.e_raw = values, raw
    elif tmpl is not None and count is None and code is None:
        a.e_values, a.e_raw = tmpl.e_values, tmpl.e_raw
    return a, pos


def parse_eflr(body: bytes) -> EflrSet:
    """Parse one explicitly formatted logical record body under the component grammar; no byte may be left over."""

    b = bytes(body)
    if not b:
        raise FormatError('eflr_empty', "empty EFLR body", 0)
    pos = 0
    desc = b[pos]
    role = desc >> 5
    if role != 0b111:
        raise FormatError('eflr_set', f"first component descriptor {desc:#04x} is not a SET", pos)
    if not desc & 0x10:
        raise FormatError('eflr_set', "SET component without type", pos)
    if desc & 0x07:
        raise FormatError('eflr_set', f"SET descriptor {desc:#04x} has reserved bits set", pos)
    pos += 1
    stype, pos = decode_ident(b, pos, 'set type')
    if not stype:
        raise FormatError('eflr_set', "empty set type", pos)
    sname = None
    if desc & 0x08:
        sname, pos = decode_ident(b, pos, 'set name')

    template: list[Attr] = []
    labels: set[str] = set()
    while pos < len(b):
        desc = b[pos]
        role = desc >> 5
        if role == 0b011:
            break
        if role != 0b001:
            raise FormatError('eflr_template', f"component {desc:#04x} in template is not an ATTRIB", pos)
        a, pos = _parse_attr_component(b, pos + 1, desc, True, None)
        if not a.label:
            raise FormatError('eflr_template_label', "empty label in template", pos)
        if a.label in labels:
            raise FormatError('eflr_template_dup', f"label {a.label!r} occurs twice in the template", pos)
        labels.add(a.label)
        template.append(a)
    if not template:
        raise FormatError('eflr_template', "set without template", pos)

    objects: list[Obj] = []
    if pos >= len(b):
        raise FormatError('eflr_no_objects', "set without objects", pos)
    while pos < len(b):
        desc = b[pos]
        if desc >> 5 != 0b011:
            raise FormatError('eflr_object', f"expected OBJECT component, found {desc:#04x}", pos)
        if not desc & 0x10:
            raise FormatError('eflr_object', "OBJECT component without name", pos)
        if desc & 0x0F:
            raise FormatError('eflr_object', f"OBJECT descriptor {desc:#04x} has reserved bits set", pos)
        name, pos = decode_obname(b, pos + 1)
        attrs: list[Attr] = []
        while pos < len(b) and (b[pos] >> 5) != 0b011:
            desc = b[pos]
            role = desc >> 5
            if len(attrs) >= len(template):
                raise FormatError('eflr_too_many_attrs', f"object {name} has more attribute components than the "
                                                         f"template ({len(template)})", pos)
            t = template[len(attrs)]
            if role == 0b000:
                if desc != 0:
                    raise FormatError('eflr_absatr', f"ABSATR descriptor {desc:#04x} carries characteristics", pos)
                a = Attr(None, None, None, None, None, None, absent=True)
                a.e_label = t.e_label
                pos += 1
            elif role == 0b001:
                a, pos = _parse_attr_component(b, pos + 1, desc, False, t)
            else:
                raise FormatError('eflr_component', f"component {desc:#04x} not allowed inside an object", pos)
            attrs.append(a)
        objects.append(Obj(name, attrs))
    return EflrSet(stype, sname, template, objects)


# ---------------------------------------------------------------------------------------------------------------------
# semantic helpers
# ---------------------------------------------------------------------------------------------------------------------
@dataclass
class LogicalFile:
    records: list[tuple[int, Record, Optional[EflrSet]]]      # (index in file, record, parsed set for EFLRs)

    @property
    def sets(self) -> list[EflrSet]:
        return [s for _, _, s in self.records if s is not None]

    def find_sets(self, stype: str) -> list[EflrSet]:
        return [s for s in self.sets if s.type == stype]

    def objects(self, stype: str) -> list[Obj]:
        return [o for s in self.find_sets(stype) for o in s.objects]


def split_logical_files(phys: Physical) -> list[LogicalFile]:
    """Parse every EFLR and split the record sequence at FILE-HEADER records."""

    lfs: list[LogicalFile] = []
    for i, r in enumerate(phys.records):
        s = parse_eflr(r.body) if r.is_eflr else None
        if s is not None and s.type == 'FILE-HEADER':
            lfs.append(LogicalFile([]))
        if not lfs:
            raise FormatError('lf_no_header', f"record {i} precedes the first FILE-HEADER", None)
        lfs[-1].records.append((i, r, s))
    return lfs


def attr_values(o: Obj, label: str) -> Optional[list]:
    a = o.get(label)
    if a is None or a.absent:
        return None
    return a.e_values


def dtime_to_utc(v: dict, local_offset: Optional[timedelta] = None) -> datetime:
    """Interpret a decoded DTIME as an aware UTC datetime (tz code 2 = GMT; 0/1 need the caller's local offset)."""
    if v['tz'] == 2:
        return v['dt'].replace(tzinfo=timezone.utc)
    if local_offset is None:
        raise FormatError('dtime_tz', "local time zone code without known offset")
    return (v['dt'] - local_offset).replace(tzinfo=timezone.utc)


def parse_iflr_header(body: bytes) -> tuple[ObName, int]:
    """The data descriptor reference that opens every IFLR."""
    return decode_obname(bytes(body), 0)


def slice_fdata(body: bytes, layout: list[tuple[int, int]]) -> tuple[ObName, int, list[list[bytes]]]:
    """Slice a frame-data record: OBNAME, frame number, then for each (code, n_elements) the raw element bytes.

    Raises FormatError when the body length differs from what the layout requires."""
    b = bytes(body)
    ref, pos = decode_obname(b, 0)
    fno, pos = decode_uvari(b, pos)
    slots = []
    for code, n in layout:
        if code not in FIXED_SIZE:
            raise FormatError('fdata_code', f"channel representation code {code} has no fixed size")
        sz = FIXED_SIZE[code]
        _need(b, pos, sz * n, 'frame data slot')
        slots.append([b[pos + k * sz: pos + (k + 1) * sz] for k in range(n)])
        pos += sz * n
    if pos != len(b):
        raise FormatError('fdata_length', f"frame data record has {len(b) - pos} bytes beyond its declared layout")
    return ref, fno, slots
