"""The object/attribute lattice shared by C04 (grammar), C05 (fidelity) and C12 (fail-closed).

For one object kind, a harness body explores: base mode {full: every attribute set to a valid default, bare: nothing
set} x one deviation per attribute (other value / other multiplicity / unset / units) x assignment route x set name x
position in the set (template donor or not) x number of objects, bounded by the number of deviations.
"""
from __future__ import annotations

from typing import Any

from mc import spec as S
from mc.schema import KINDS, attr_defs

NEG_ZERO = {'$f': '8000000000000000'}
INF = {'$f': '7ff0000000000000'}
NAN = {'$f': '7ff8000000000000'}
DT0 = {'$dt': [2020, 1, 2, 3, 4, 5, 0], 'tz': 0}

# pool of referencable objects: handle -> (kind, name, kw)
POOL = [
    ('A0', 'axis', 'AXIS-0', {}), ('A1', 'axis', 'AXIS-1', {'axis_id': 'AX1'}),
    ('Z0', 'zone', 'ZONE-0', {}), ('Z1', 'zone', 'ZONE-1', {'domain': 'TIME'}),
    ('LN0', 'long_name', 'LNAME-0', {'quantity': 'Q'}),
    ('C0', 'channel', 'CHAN-0', {'data': S.arr_spec('float64', [3], [0x3FF0000000000000, 0x3FF8000000000000,
                                                                     0x4000000000000000])}),
    ('C1', 'channel', 'CHAN-1', {'data': S.arr_spec('float64', [3], [0x3FF0000000000000, 0x3FF8000000000000,
                                                                     0x4000000000000000])}),
    ('C2', 'channel', 'CHAN-2', {'data': S.arr_spec('uint8', [3, 2], [1, 2, 3, 4, 5, 6])}),
    ('F0', 'frame', 'FRAME-0', {'channels': [{'$ref': 'C0'}]}),
    ('P0', 'parameter', 'PARAM-0', {}), ('P1', 'parameter', 'PARAM-1', {}),
    ('CP0', 'computation', 'COMPUT-0', {}),
    ('E0', 'equipment', 'EQUIP-0', {}), ('E1', 'equipment', 'EQUIP-1', {}),
    ('CC0', 'calibration_coefficient', 'COEF-0', {}), ('CM0', 'calibration_measurement', 'MEAS-0', {}),
    ('W0', 'well_reference_point', 'WREF-0', {}), ('G0', 'group', 'GROUP-0', {}),
    ('T0', 'tool', 'TOOL-0', {}),
]
POOL_BY_KIND: dict[str, list[str]] = {}
for _h, _k, _n, _kw in POOL:
    POOL_BY_KIND.setdefault(_k, []).append(_h)


def base_ops(kind: str) -> list[dict]:
    """Logical file, origin, data frame and the pool objects the kind can refer to."""
    ops = [S.op_lf(), S.op_origin()]
    need = {'channel', 'frame'}
    for ad in attr_defs(kind):
        if ad.typ in ('ref', 'reftext'):
            need |= set(ad.targets or ('channel', 'zone'))
        if ad.typ == 'objref':
            need |= {'channel', 'zone', 'tool'}
    if 'tool' in need:
        need.add('equipment')
    for h, k, n, kw in POOL:
        if k in need:
            ops.append(S.op_add(k, h, n, **kw))
    return ops


def R_(h: str) -> dict:
    return {'$ref': h}


def options(kind: str, ad, tier: str) -> list:
    """Value options of an attribute, first = the valid default used by the 'full' base mode."""
    t = ad.typ
    big = tier == 'thorough'
    if kind == 'frame' and ad.kw == 'channels':
        return [[R_('C1')], [R_('C1'), R_('C2')]]
    if t == 'text':
        if ad.multi:
            return [['text A', 'text B'], 'scalar text', [], ['one'], ['v%d' % i for i in range(128)],
                    ['w%d' % i for i in range(200)], ['', 'x' * 128], ['ends ', ' starts', '12', '1E5'],
                    ['t%d' % i for i in range(15)], ['t%d' % i for i in range(16)], ['t%d' % i for i in range(17)]]
        return ['Some text', '', 'x' * 127, 'x' * 128, 'y' * 300, 'ends with a blank ', ' starts with a blank', '12.5', '007',
                '1E5', 'two  blanks', 'line\nbreak', 'caf\u00e9 10 \u00b0C'] + (['z' * 16383, 'z' * 16384, 'z' * 16385] if big else [])
    if t == 'ident':
        return ['IDENT-1', 'a', 'I' * 127, 'I' * 128, 'I' * 255, 'TRAILING ', ' LEADING', '12', '1E5']
    if t == 'enum':
        table = {
            ('calibration_measurement', 'phase'): ['BEFORE', 'AFTER', {'$enum': ['CalibrationMeasurementPhase', 'MASTER'], 'v': 'MASTER'}],
            ('channel', 'units'): ['m', {'$enum': ['Unit', 'METER'], 'v': 'm'}, 'furlong', 'u' * 200],
            ('equipment', 'eq_type'): ['Tool', {'$enum': ['EquipmentType', 'BOARD'], 'v': 'Board'}, 'Custom-Type'],
            ('equipment', 'location'): ['Well', 'Rig', 'Somewhere'],
            ('frame', 'index_type'): ['BOREHOLE-DEPTH', {'$enum': ['FrameIndexType', 'NON_STANDARD'], 'v': 'NON-STANDARD'}, 'MY-INDEX'],
            ('process', 'status'): ['COMPLETE', 'ABORTED', 'IN-PROGRESS'],
            ('zone', 'domain'): ['BOREHOLE-DEPTH', 'VERTICAL-DEPTH'],
        }
        return table[(kind, ad.kw)]
    if t == 'props':
        return [['AVERAGED', 'CALIBRATED'], 'COMPUTED', [], [{'$enum': ['Property', 'AVERAGED'], 'v': 'AVERAGED'}]]
    if t == 'num':
        if ad.multi and ad.mdim:
            return [[[1.5]], [[1.5, 2.5]], [[1.5, 2.5], [3.5, 4.5]], [1.5], [], 2.5, [[NEG_ZERO]], [[float(i)] for i in range(128)]]
        if ad.multi:
            return [[1.5], [1.5, -2.0], [], 3.25, [NEG_ZERO], [INF, NAN], [float(i) for i in range(128)],
                    [float(i) for i in range(200)], [7], [float(i) for i in range(15)], [float(i) for i in range(16)],
                    [i - 8 for i in range(17)], [NEG_ZERO] * 16 + [INF, NAN]]
        return [1.5, 0, -3, NEG_ZERO, INF, NAN, {'$f': '7fefffffffffffff'}, {'$f': '0000000000000001'}, 7,
                {'$np': ['float32', 0.5]}, {'$np': ['int16', -5]}]
    if t == 'int':
        if ad.code == 16:
            return [1, 0, 65535, 255, 256]
        return [1, 0, 127, 128, 16383, 16384, 2 ** 30 - 1]
    if t == 'dim':
        return [[1], [3], [2, 3], [128], [16384], 5, []]
    if t == 'dtime':
        return [DT0, {'$dt': [2020, 1, 2, 3, 4, 5, 0], 'tz': None}, {'$dt': [1999, 12, 31, 23, 59, 59, 999500], 'tz': 330},
                '2050/03/21 15:30:00', '2003.12.31 09:30:00', {'$dt': [1900, 6, 1, 0, 0, 0, 1500], 'tz': 0},
                {'$dt': [2155, 6, 1, 12, 0, 0, 0], 'tz': -480}]
    if t == 'dtimef':
        return [12.5, DT0, 0, NEG_ZERO, '2050/03/21 15:30:00', {'$dt': [2020, 1, 2, 3, 4, 5, 0], 'tz': None}]
    if t == 'ref':
        hs = POOL_BY_KIND[ad.targets[0]] if ad.targets else ['C0', 'Z0']
        if kind == 'group' and ad.kw == 'group_list':
            hs = ['G0']
        if ad.multi:
            out = [[R_(hs[0])]]
            if len(hs) > 1:
                out += [[R_(hs[0]), R_(hs[1])], [R_(hs[1]), R_(hs[0])]]
            out += [R_(hs[0]), [R_(hs[0]), R_(hs[0])], []]
            return out
        return [R_(h) for h in hs]
    if t == 'objref':
        if ad.multi:
            return [[R_('C0'), R_('Z0')], [R_('T0')], R_('C1'), [], [R_('C0'), R_('C0')]]
        return [R_('C0'), R_('Z0'), R_('T0')]
    if t == 'reftext':
        return ['A long name', R_('LN0'), 'n' * 300]
    if t == 'status':
        return [1, 0, True, False, 1.0]
    if t == 'mixed':
        # (texts that only look like numbers to float(): they are texts and must come back as texts; plain decimal
        # numerals such as '12' or '12.5' are converted to numbers by design and stay outside the alphabet)
        if ad.mdim:
            return [[1.5], [[1.5, 2.5]], [[1, 2], [3, 4]], ['a'], [7], [], [[1, 2.5]], 'scalar', ['INF'], ['1E5'], ['NAN'],
                    ['-2e-3']]
        return [[1, 2], [1.5, 2], ['near', 'far'], [1, 2.5], 3, [], [float(i) for i in range(128)], ['INF'], ['1E5', 'NAN'],
                ['Infinity', 'far']]
    if t == 'enc':
        return [1, 0, True, 'yes', 'N']
    raise ValueError(f"{kind}.{ad.kw}: {t}")


# attribute defaults that keep the 'full' object valid (override option 0)
FULL_OVERRIDES = {
    ('zone', 'maximum'): 1300.0, ('zone', 'minimum'): 100.0,
    ('parameter', 'zones'): [R_('Z0')], ('parameter', 'values'): [1.5], ('parameter', 'dimension'): [1],
    ('parameter', 'axis'): [R_('A0')],
    ('computation', 'zones'): [R_('Z0')], ('computation', 'values'): [1.5], ('computation', 'dimension'): [1],
    ('computation', 'axis'): [R_('A0')], ('computation', 'source'): R_('C0'),
    ('channel', 'dimension'): [3], ('channel', 'element_limit'): [3], ('channel', 'axis'): [R_('A0')],
    ('calibration_measurement', 'dimension'): [1], ('calibration_measurement', 'axis'): [R_('A0')],
    ('splice', 'input_channels'): [R_('C0')], ('splice', 'zones'): [R_('Z0')],
    # (deliberately NOT what the data of the frame's index channel would give: 1.0 / 2.0 / 0.5 / INCREASING)
    ('frame', 'spacing'): 0.25, ('frame', 'index_min'): -7.5, ('frame', 'index_max'): 99.0, ('frame', 'direction'): 'DECREASING',
    ('frame', 'encrypted'): 0,
}
# base mode 'rank2': objects whose values have dimension [2, 2] (values nested three levels deep)
RANK2_KINDS = ('computation', 'parameter', 'calibration_measurement')
V222 = [[[1.5, 2.5], [3.5, 4.5]]]
RANK2_OVERRIDES = {
    ('computation', 'dimension'): [2, 2], ('computation', 'axis'): [R_('A0'), R_('A1')], ('computation', 'values'): V222,
    ('parameter', 'dimension'): [2, 2], ('parameter', 'axis'): [R_('A0'), R_('A1')], ('parameter', 'values'): V222,
    ('calibration_measurement', 'dimension'): [2, 2], ('calibration_measurement', 'axis'): [R_('A0'), R_('A1')],
    ('calibration_measurement', 'measurement'): V222, ('calibration_measurement', 'maximum_deviation'): V222,
    ('calibration_measurement', 'standard_deviation'): V222, ('calibration_measurement', 'reference'): V222,
    ('calibration_measurement', 'standard'): V222, ('calibration_measurement', 'plus_tolerance'): V222,
    ('calibration_measurement', 'minus_tolerance'): [[[0.5, 0.25], [0.125, 1.0]], [[2.0, 3.0], [4.0, 5.0]]],
}
UNIT_OPTS = [None, 'm', {'$enum': ['Unit', 'SECOND'], 'v': 's'}, 'my-unit', 'u' * 127, 'u' * 128, 'u' * 255, '']      # '' = no units
ROUTES = ['kw', 'dict', 'as', 'later', 'setattrs', 'shared-dict']     # shared-dict: one dict object re-used for equal values


def settable(kind: str) -> list:
    return [ad for ad in attr_defs(kind) if ad.kw is not None]


def build_spec(kind: str, mode: str, ctx: Any, tier: str) -> tuple[dict, dict]:
    """Run the choice points and return (spec, info). info['target'] is the handle of the object under test."""
    set_name = ctx.choose('set_name', [None, 'SET-A'])
    position = ctx.choose('position', ['first', 'after-bare', 'before-bare', 'between-full'])
    route = ctx.choose('route', ROUTES)
    vrl = ctx.choose('vrl', [8192, 64])
    rename_set = ctx.choose('rename-set', [None, 'RENAMED-SET'])
    assigned: dict[str, Any] = {}
    units: dict[str, Any] = {}
    for ad in settable(kind):
        opts = options(kind, ad, tier)
        d0 = FULL_OVERRIDES.get((kind, ad.kw), opts[0])
        if mode == 'rank2':
            d0 = RANK2_OVERRIDES.get((kind, ad.kw), d0)
        if kind == 'frame' and ad.kw == 'channels':
            v = ctx.choose('a:channels', opts)
            assigned[ad.kw] = v
            continue
        if mode in ('full', 'rank2'):
            menu = [('set', d0)] + [('set', o) for o in opts if o != d0] + [('unset', None)]
        else:
            menu = [('unset', None), ('set', d0)] + [('set', o) for o in opts if o != d0]
        if [] in opts and ad.units_settable:
            menu.append(('set+units', []))      # an empty list together with units: still "no value"
        how, v = ctx.choose(f'a:{ad.kw}', menu)
        if how == 'set+units':
            assigned[ad.kw] = v
            units[ad.kw] = 'm'
        if how == 'set':
            assigned[ad.kw] = v
            if ad.units_settable:
                u = ctx.choose(f'u:{ad.kw}', UNIT_OPTS)
                if u is not None:
                    units[ad.kw] = u
    ops = base_ops(kind)
    # the reference of the defining origin (which every object of the specification then carries): values around the
    # one-byte limits of the OBNAME fields
    oref = ctx.choose('defining-origin-reference', [None, 127, 128, 200, 255, 256, 16384])
    if oref is not None:
        for op in ops:
            if op.get('kind') == 'origin':
                op['kw']['origin_reference'] = oref
                break
    sname = {'set_name': set_name} if set_name else {}
    tname = 'TARGET'
    if position in ('after-bare', 'between-full'):
        kw0 = dict(sname)
        if kind == 'frame':
            kw0['channels'] = [R_('C2')]
        if kind == 'origin':
            kw0.update(file_set_number=9, creation_time=DT0)      # (their defaults are a random number and now())
        ops.append(S.op_add(kind, 'X0', tname if position == 'between-full' else 'OTHER-0', **kw0))
    # the object under test
    kw: dict[str, Any] = dict(sname)
    later: list[dict] = []
    for ad in settable(kind):
        if ad.kw not in assigned:
            continue
        v, u = assigned[ad.kw], units.get(ad.kw)
        must_kw = kind == 'frame' and ad.kw == 'channels'
        if route == 'kw' or must_kw:
            if u is None:
                kw[ad.kw] = v
            else:
                kw[ad.kw] = {'$as': {'value': v, 'units': u}}
        elif route in ('dict', 'shared-dict'):
            kw[ad.kw] = {'$dict': {'value': v, **({'units': u} if u is not None else {})}}
            if route == 'shared-dict':
                kw[ad.kw]['shared'] = True
        elif route == 'as':
            kw[ad.kw] = {'$as': {'value': v, **({'units': u} if u is not None else {})}}
        elif route == 'later':
            later.append({'op': 'set', 'h': 'T', 'attr': ad.attr, 'part': 'value', 'value': v})
            if u is not None:
                later.append({'op': 'set', 'h': 'T', 'attr': ad.attr, 'part': 'units', 'value': u})
        else:
            later.append({'op': 'setattrs', 'h': 'T',
                          'kw': {ad.attr: ({'$dict': {'value': v, 'units': u}} if u is not None else v)}})
    if kind == 'origin':
        kw.setdefault('file_set_number', 7)
        kw.setdefault('creation_time', DT0)
        if route in ('later', 'setattrs'):
            # file_set_number cannot be reassigned after construction (documented): keep it on the keyword route
            for op in list(later):
                if op.get('attr') == 'file_set_number' or 'file_set_number' in (op.get('kw') or {}):
                    later.remove(op)
                    kw['file_set_number'] = assigned['file_set_number']
    ops.append(S.op_add(kind, 'T', tname, **kw))
    ops.extend(later)
    # an assignment that is refused (one element is no value at all), with another number of elements than the value
    # the attribute holds: the attribute must keep its value AND the count that goes with it
    refused = ctx.choose('refused-reassign', [None, 'more', 'one'])
    refused_ops: list[int] = []
    if refused:
        for ad in settable(kind):
            v = assigned.get(ad.kw)
            if ad.multi and isinstance(v, list) and v and not (kind == 'frame' and ad.kw == 'channels'):
                bad = v + [{'$bad': 'object'}, v[0]] if (refused == 'more' or len(v) == 1) else [{'$bad': 'object'}]
                refused_ops.append(len(ops))
                ops.append({'op': 'set', 'h': 'T', 'attr': ad.attr, 'part': 'value', 'value': bad, 'expect': 'raise'})
    if position in ('before-bare', 'between-full'):
        kw1 = dict(sname)
        if kind == 'frame':
            kw1['channels'] = [R_('C2')] if position == 'before-bare' else [R_('C0')]
        if kind == 'origin':
            kw1.update(file_set_number=9, creation_time=DT0)
        ops.append(S.op_add(kind, 'X1', tname if position == 'between-full' else 'OTHER-1', **kw1))
    if rename_set:
        # after ALL objects were added: the registries are keyed by the name a set had when it was created, so adding
        # to a renamed set (under either name) is not an operation the API supports
        ops.append({'op': 'setname', 'h': 'T', 'value': rename_set})
    sp = {'sul': {'max_record_length': vrl}, 'ops': ops, 'write': {}}
    return sp, {'target': 'T', 'assigned': assigned, 'units': units, 'route': route, 'position': position,
                'refused_ops': refused_ops}
