"""Specification language (plain JSON) and the *driver* that issues a specification on the real dliswriter API.

spec = {'sul': {...DLISFile kwargs...}, 'ops': [op, ...], 'write': {...write kwargs...}}
ops:
  {'op':'lf',  'h':'L0', 'kw':{fh_id, fh_sequence_number, fh_identifier}}
  {'op':'add', 'lf':'L0', 'kind':'channel', 'h':'C0', 'name':'CH', 'kw':{...}, 'expect':'ok'|'raise'}
  {'op':'set', 'h':'C0', 'attr':'units', 'part':'value'|'units', 'value':V, 'expect':...}
  {'op':'setattrs', 'h':'C0', 'kw':{...}}            # EFLRItem.set_attributes
  {'op':'origin_ref', 'h':'C0', 'value': int}
  {'op':'nfdata', 'lf':'L0', 'nf':'N0', 'data': V}
  {'op':'hc', 'enter': True|False}                   # enter / leave high-compatibility mode (context manager)
encoded values V:
  {'$ref':h}  {'$arr':{dtype,bo,shape,pat,layout}}  {'$dt':[y,m,d,H,M,S,us],'tz':minutes|None}  {'$f': hex8}
  {'$as':{value,units}} AttrSetup   {'$dict':{value,units}} plain dict route   {'$enum':[EnumName, MEMBER]}
  {'$dtype':name}  {'$bytes':hex}  {'$bytearray':hex}  {'$h5':{path:{$arr}}}  {'$struct':{'fields':[[name,$arr]..]}}
  {'$tuple':[...]}  {'$np':[dtype, python number]}
"""
from __future__ import annotations

import os
import struct
from datetime import datetime, timedelta, timezone
from typing import Any, Optional

from mc.schema import KINDS, DTYPE_SIZES
from mc.engine import scratch_dir


# ---------------------------------------------------------------------------------------------------------------------
# arrays
# ---------------------------------------------------------------------------------------------------------------------
def arr_spec(dtype: str, shape: list[int], pat: list[int], bo: str = '<', layout: str = 'C') -> dict:
    return {'$arr': {'dtype': dtype, 'bo': bo, 'shape': list(shape), 'pat': list(pat), 'layout': layout}}


def make_array(a: dict):
    import numpy as np
    a = a['$arr'] if '$arr' in a else a
    size = DTYPE_SIZES[a['dtype']]
    bo = a.get('bo', '<')
    raw = b''.join(int(p).to_bytes(size, 'little' if bo == '<' else 'big') for p in a['pat'])
    dt = np.dtype(a['dtype']).newbyteorder(bo)
    shape = tuple(a['shape'])
    base = np.frombuffer(raw, dtype=dt).reshape(shape)
    layout = a.get('layout', 'C')
    if layout == 'C':
        arr = base.copy()
    elif layout == 'F':
        arr = np.asfortranarray(base.copy())
    elif layout == 'readonly':
        arr = base.copy()
        arr.setflags(write=False)
    elif layout == 'strided':
        big = np.zeros((2 * shape[0],) + shape[1:], dtype=dt)
        big[::2] = base
        big[1::2] = base[::-1] if shape[0] else base
        arr = big[::2]
    elif layout == 'view':
        big = np.zeros((shape[0] + 2,) + shape[1:], dtype=dt)
        big[1:-1] = base
        big[0] = base[-1]
        big[-1] = base[0]
        arr = big[1:-1]
    else:
        raise ValueError(layout)
    # harness self-check, independent of dliswriter: the array holds exactly the requested bit patterns
    chk = np.ascontiguousarray(arr).tobytes()
    if chk != raw:
        raise AssertionError("harness: array construction altered the bit patterns")
    return arr


def decode_value(v: Any, objs: dict) -> Any:
    """Turn an encoded JSON value into the live Python value handed to the API."""
    if isinstance(v, list):
        return [decode_value(x, objs) for x in v]
    if not isinstance(v, dict):
        return v
    if '$ref' in v:
        return objs[v['$ref']]
    if '$arr' in v:
        return make_array(v)
    if '$dt' in v:
        y, m, d, H, M, S, us = v['$dt']
        tz = v.get('tz')
        return datetime(y, m, d, H, M, S, us, tzinfo=(timezone(timedelta(minutes=tz)) if tz is not None else None))
    if '$f' in v:
        return struct.unpack('>d', bytes.fromhex(v['$f']))[0]
    if '$as' in v:
        from dliswriter import AttrSetup
        return AttrSetup(**{k: decode_value(x, objs) for k, x in v['$as'].items()})
    if '$dict' in v:
        if v.get('shared'):
            # ONE dict object for all equal specifications of a build (the caller re-uses his dict for several
            # attributes); kept with its specification so that the harness can see whether the library changed it
            import json as _json
            pool = objs.setdefault('__shared_dicts__', {})
            key = _json.dumps(v['$dict'], sort_keys=True, default=str)
            if key not in pool:
                pool[key] = ({k: decode_value(x, objs) for k, x in v['$dict'].items()}, sorted(v['$dict']))
            return pool[key][0]
        return {k: decode_value(x, objs) for k, x in v['$dict'].items()}
    if '$enum' in v:
        from dliswriter import enums
        return getattr(enums, v['$enum'][0])[v['$enum'][1]]
    if '$dtype' in v:
        import numpy as np
        if v.get('as') == 'type':
            return getattr(np, v['$dtype'])
        return np.dtype(v['$dtype'])
    if '$bytes' in v:
        return bytes.fromhex(v['$bytes'])
    if '$bytearray' in v:
        return bytearray.fromhex(v['$bytearray'])
    if '$shared_list' in v:
        # ONE list object per key for the whole build: the caller keeps his list, passes it to several calls and changes it
        # in between (op 'list_append'); what a call got is the list's content at the time of the call
        pool = objs.setdefault('__shared_lists__', {})
        if v['$shared_list'] not in pool:
            pool[v['$shared_list']] = [decode_value(x, objs) for x in v.get('init', [])]
        return pool[v['$shared_list']]
    if '$frac' in v:
        from fractions import Fraction
        return Fraction(*v['$frac'])
    if '$dec' in v:
        from decimal import Decimal
        return Decimal(v['$dec'])
    if '$tuple' in v:
        return tuple(decode_value(x, objs) for x in v['$tuple'])
    if '$np' in v:
        import numpy as np
        return np.dtype(v['$np'][0]).type(v['$np'][1])
    if '$rawarr' in v:
        import numpy as np
        a = v['$rawarr']
        n = 1
        for k in a['shape']:
            n *= k
        if a['dtype'] == 'object':
            return np.array([object() for _ in range(n)], dtype=object).reshape(a['shape'])
        if a['dtype'].startswith('<U'):
            return np.array(['abc'] * n, dtype=a['dtype']).reshape(a['shape'])
        return (np.arange(n) % 2).astype(a['dtype']).reshape(a['shape'])
    if '$datadict' in v:
        out = {k: decode_value(x, objs) for k, x in v['$datadict'].items()}
        if v.get('intkey'):
            import numpy as np
            out[5] = np.arange(3.0)
        return out
    if '$tolist' in v:
        return make_array(v['$tolist']).tolist()
    if '$bad' in v:
        import numpy as np
        how = v['$bad']
        if how == 'object':
            return object()
        if how == 'int':
            return 5
        if how == 'txt-path':
            p = os.path.join(scratch_dir(), 'not-hdf5.txt')
            open(p, 'w').write('x')
            return p
        if how == 'bytes-path':
            return os.path.join(scratch_dir(), 'nope.h5').encode()
        if how == 'plain-ndarray':
            return np.arange(3.0)
        if how == 'struct-2d':
            return np.zeros((3, 1), dtype=[('CHAN-A', 'f8'), ('CHAN-B', 'u2', (2,))])
        if how == 'list-of-arrays':
            return [np.arange(3.0), np.arange(6, dtype=np.uint16).reshape(3, 2)]
        if how == 'tuple-pairs':
            return (('CHAN-A', np.arange(3.0)), ('CHAN-B', np.arange(6, dtype=np.uint16).reshape(3, 2)))
        if how == 'h5-is-a-directory':
            p = os.path.join(scratch_dir(), 'a-directory.h5')
            os.makedirs(p, exist_ok=True)
            return p
        if how == 'h5-group-for-dataset':
            import h5py
            p = os.path.join(scratch_dir(), 'group-for-dataset.h5')
            if os.path.exists(p):
                os.remove(p)
            with h5py.File(p, 'w') as f:
                f.create_group('/CHAN-A')
                f.create_dataset('/CHAN-B', data=np.arange(6, dtype=np.uint16).reshape(3, 2))
            return p
        raise ValueError(how)
    if '$struct' in v:
        import numpy as np
        fields = [(n, make_array(a)) for n, a in v['$struct']['fields']]
        dt = []
        for n, a in fields:
            dt.append((n, a.dtype) if a.ndim == 1 else (n, a.dtype, a.shape[1:]))
        dtype = np.dtype(dt)
        if v['$struct'].get('padded'):
            # the same fields with unused bytes between them and at the end of every row (what align=True or a view
            # into a larger record array gives): every field starts on the next multiple of 8, 8 spare bytes at the end
            offs, pos = [], 0
            for n in dtype.names:
                pos = (pos + 7) // 8 * 8
                offs.append(pos)
                pos += dtype.fields[n][0].itemsize + 1
            dtype = np.dtype({'names': list(dtype.names), 'formats': [dtype.fields[n][0] for n in dtype.names],
                              'offsets': offs, 'itemsize': (pos + 7) // 8 * 8 + 8})
        out = np.zeros(fields[0][1].shape[0], dtype=dtype)
        for n, a in fields:
            out[n] = a
        return out
    if '$h5' in v:
        import h5py
        p = os.path.join(scratch_dir(), v.get('name', 'src') + '.h5')
        if os.path.exists(p):
            os.remove(p)
        with h5py.File(p, 'w') as f:
            for path, a in v['$h5'].items():
                f.create_dataset(path, data=make_array(a))
        return p
    raise ValueError(f"unknown encoded value {v}")


# ---------------------------------------------------------------------------------------------------------------------
# driver
# ---------------------------------------------------------------------------------------------------------------------
class Built:
    def __init__(self) -> None:
        self.df = None
        self.lfs: dict[str, Any] = {}
        self.objs: dict[str, Any] = {}
        self.status: list[str] = []
        self.hc_stack: list[Any] = []
        self.failed_at: Optional[int] = None
        self.object_route = False


def _exc(e: BaseException) -> str:
    return f"raised:{type(e).__name__}: {str(e)[:160]}"


def apply_op(b: Built, op: dict) -> str:
    """Apply one op on the real API. Returns 'ok' or 'raised:...'."""
    try:
        k = op['op']
        if k == 'lf':
            kw = dict(op.get('kw') or {})
            if b.object_route:
                # the documented alternative: hand over a ready-made FileHeaderItem instead of its three parameters
                from dliswriter.logical_record.eflr_types.file_header import FileHeaderItem, FileHeaderSet
                names = {'fh_id': 'header_id', 'fh_sequence_number': 'sequence_number', 'fh_identifier': 'identifier'}
                hkw = {names[key]: val for key, val in kw.items()}
                hkw.setdefault('header_id', 'FILE-HEADER')
                kw = {'file_header': FileHeaderItem(parent=FileHeaderSet(), **hkw)}
            b.lfs[op['h']] = b.df.add_logical_file(**kw)
        elif k == 'add':
            lf = b.lfs[op['lf']]
            kw = {key: decode_value(val, b.objs) for key, val in (op.get('kw') or {}).items()}
            meth = getattr(lf, KINDS[op['kind']]['method'])
            name = decode_value(op['name'], b.objs)
            obj = meth(name, **kw)
            b.objs[op['h']] = obj
        elif k == 'set':
            obj = b.objs[op['h']]
            setattr(getattr(obj, op['attr']), op.get('part', 'value'), decode_value(op['value'], b.objs))
        elif k == 'setattrs':
            b.objs[op['h']].set_attributes(**{key: decode_value(val, b.objs) for key, val in op['kw'].items()})
        elif k == 'origin_ref':
            b.objs[op['h']].origin_reference = op['value']
        elif k == 'list_append':
            b.objs.setdefault('__shared_lists__', {}).setdefault(op['key'], []).append(decode_value(op['value'], b.objs))
        elif k == 'foreign_channel':
            # a ChannelItem made outside the file object (its own, unregistered CHANNEL set)
            from dliswriter.logical_record.eflr_types.channel import ChannelItem, ChannelSet
            b.objs[op['h']] = ChannelItem(op['name'], parent=ChannelSet(), origin_reference=op.get('origin_reference', 0))
        elif k == 'fhid':
            # the header's public attributes, edited afterwards
            setattr(b.lfs[op['lf']].file_header, op.get('attr', 'header_id'), op['value'])
        elif k == 'sul':
            for key, val in op['kw'].items():
                setattr(b.df.storage_unit_label, key, val)
        elif k == 'setname':
            b.objs[op['h']].parent.set_name = op['value']
        elif k == 'dsname':
            b.objs[op['h']].dataset_name = op['value']
        elif k == 'cast':
            b.objs[op['h']].cast_dtype = decode_value(op['value'], b.objs)
        elif k == 'rename':
            b.objs[op['h']].name = op['value']
        elif k == 'nfdata':
            rec = b.lfs[op['lf']].add_no_format_frame_data(b.objs[op['nf']], decode_value(op['data'], b.objs))
            if op.get('h'):
                b.objs[op['h']] = rec
        elif k == 'hc':
            from dliswriter import high_compatibility_mode
            if op['enter']:
                cm = high_compatibility_mode()
                cm.__enter__()
                b.hc_stack.append(cm)
            else:
                b.hc_stack.pop().__exit__(None, None, None)
        else:
            raise ValueError(f"harness: unknown op {k}")
        return 'ok'
    except AssertionError:
        raise
    except Exception as e:  # noqa
        return _exc(e)


def build(spec: dict) -> Built:
    from dliswriter import DLISFile
    b = Built()
    try:
        b.object_route = bool(spec.get('object_route'))
        sul = dict(spec.get('sul') or {})
        if b.object_route:
            from dliswriter.logical_record.misc.storage_unit_label import StorageUnitLabel
            names = {'set_identifier': 'set_identifier', 'sul_sequence_number': 'sequence_number',
                     'max_record_length': 'max_record_length'}
            lkw = {names[key]: val for key, val in sul.items()}
            lkw.setdefault('set_identifier', 'MAIN-STORAGE-UNIT')
            sul = {'storage_unit_label': StorageUnitLabel(**lkw)}
        b.df = DLISFile(**sul)
    except Exception as e:  # noqa
        b.status.append(_exc(e))
        b.failed_at = -1
        return b
    for i, op in enumerate(spec['ops']):
        st = apply_op(b, op)
        b.status.append(st)
        want = op.get('expect', 'ok')
        if st != 'ok' and want == 'ok' and b.failed_at is None:
            b.failed_at = i
            break
    return b


def write_kwargs(spec: dict, b: Built) -> dict:
    w = dict(spec.get('write') or {})
    w.setdefault('output_chunk_size', 2 ** 16)
    if 'data' in w:
        w['data'] = decode_value(w['data'], b.objs)
    return w


def run_spec(spec: dict, fname: str = 'out.dlis', keep_built: bool = False, pre: Any = None) -> dict:
    """Build and write a specification. Returns {'status': [...], 'failed_at':, 'write': 'ok'|'raised:..'|'skipped',
    'data': bytes|None}."""
    b = build(spec)
    res: dict = {'status': b.status, 'failed_at': b.failed_at, 'write': 'skipped', 'data': None}
    if keep_built:
        res['built'] = b
    if b.failed_at is not None:
        _unwind(b)
        return res
    path = os.path.join(scratch_dir(), fname)
    if os.path.isdir(path):
        os.rmdir(path)
    elif os.path.exists(path):
        os.remove(path)
    if pre == 'dir':
        os.mkdir(path)
    elif pre is not None:
        with open(path, 'wb') as f:
            f.write(pre)
    res['path'] = path
    try:
        kw = write_kwargs(spec, b)
        b.df.write(path, **kw)
        res['write'] = 'ok'
    except AssertionError:
        raise
    except Exception as e:  # noqa
        res['write'] = _exc(e)
    finally:
        _unwind(b)
    # dicts the 'caller' re-used for several attributes must still hold what he put in
    res['caller_dicts_changed'] = [k for k, (d, keys) in (b.objs.get('__shared_dicts__') or {}).items() if sorted(d) != keys]
    if res['write'] == 'ok':
        with open(path, 'rb') as f:
            res['data'] = f.read()
    if os.path.isdir(path):
        os.rmdir(path)
    return res


def _unwind(b: Built) -> None:
    while b.hc_stack:
        try:
            b.hc_stack.pop().__exit__(None, None, None)
        except Exception:  # noqa
            pass


# ---------------------------------------------------------------------------------------------------------------------
# small builders used by the harnesses
# ---------------------------------------------------------------------------------------------------------------------
FIXED_ORIGIN_KW = {'file_set_number': 7, 'creation_time': {'$dt': [2020, 1, 2, 3, 4, 5, 0], 'tz': 0}}


def flatten_shared_lists(spec: dict) -> dict:
    """The specification as the reference model sees it: every '$shared_list' value replaced by a plain copy of the list's
    content at that point, 'list_append' ops dropped."""
    import copy
    pool: dict = {}

    def walk(v):
        if isinstance(v, dict):
            if '$shared_list' in v:
                if v['$shared_list'] not in pool:
                    pool[v['$shared_list']] = list(v.get('init', []))
                return copy.deepcopy(pool[v['$shared_list']])
            return {k: walk(x) for k, x in v.items()}
        if isinstance(v, list):
            return [walk(x) for x in v]
        return v
    ops = []
    for op in spec['ops']:
        if op.get('op') == 'list_append':
            pool.setdefault(op['key'], []).append(op['value'])
            continue
        ops.append(walk(op))
    return dict(spec, ops=ops)


def op_lf(h: str = 'L0', **kw: Any) -> dict:
    return {'op': 'lf', 'h': h, 'kw': kw}


def op_add(kind: str, h: str, name: Any, lf: str = 'L0', expect: str = 'ok', **kw: Any) -> dict:
    return {'op': 'add', 'lf': lf, 'kind': kind, 'h': h, 'name': name, 'kw': kw, 'expect': expect}


def op_origin(h: str = 'O0', name: str = 'ORIGIN', lf: str = 'L0', **kw: Any) -> dict:
    k = dict(FIXED_ORIGIN_KW)
    k.update(kw)
    return op_add('origin', h, name, lf, **k)


def minimal_spec(vrl: int = 8192, rows: int = 2, dtype: str = 'float64', **sul: Any) -> dict:
    """Smallest complete specification: one logical file, origin, one channel, one frame."""
    n = rows
    pat = [0x3FF0000000000000 + i for i in range(n)] if dtype == 'float64' else list(range(1, n + 1))
    return {
        'sul': dict(max_record_length=vrl, **sul),
        'ops': [op_lf(), op_origin(),
                op_add('channel', 'C0', 'CH0', data=arr_spec(dtype, [n], pat)),
                op_add('frame', 'F0', 'FR0', channels=[{'$ref': 'C0'}])],
        'write': {},
    }
