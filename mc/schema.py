"""Static description of the 21 add_* object kinds (plus FILE-HEADER), written from RP66 V1 chapter 5/6 and the
documented dliswriter API.  This is part of the *reference model*: it must not import dliswriter.

AttrDef fields: kw (keyword of add_*), attr (python attribute on the item), label (RP66 label), typ, multi, mdim,
code (fixed representation code or None), targets (admissible kinds for references; None = any).

typ:
  text    ASCII string                          ident   IDENT string
  enum    IDENT restricted/checked by an enum   props   IDENT list restricted to the Property enum
  num     number, code explicit (``code``) or inferred (NumericAttribute stores floats unless the code is integral)
  int     integer-only number                   dim     UVARI list (dimension / element limit)
  dtime   date-time                             dtimef  date-time or float
  ref     OBNAME reference                      objref  OBJREF reference
  reftext OBNAME reference or ASCII text        status  STATUS 0/1
  mixed   numbers and/or strings (coordinates, parameter values)
  enc     FRAME.ENCRYPTED flag (USHORT)         rcode   CHANNEL.REPRESENTATION-CODE (never user-settable)
"""
from __future__ import annotations

from typing import NamedTuple, Optional

from mc import rp66 as R


class AttrDef(NamedTuple):
    kw: str
    attr: str
    label: str
    typ: str
    multi: bool = False
    mdim: bool = False
    code: Optional[int] = None
    targets: Optional[tuple] = None
    units_settable: bool = True


def A(kw, typ, multi=False, mdim=False, code=None, targets=None, attr=None, label=None, us=None):
    attr = attr or kw
    label = label or attr.strip('_').upper().replace('_', '-')
    if us is None:
        us = typ in ('num', 'int', 'dtime', 'dtimef', 'mixed', 'enc')
    return AttrDef(kw, attr, label, typ, multi, mdim, code, targets, us)


def T(kw, multi=False): return A(kw, 'text', multi, code=R.ASCII)
def I(kw, **k): return A(kw, 'ident', code=R.IDENT, **k)
def N(kw, multi=False, mdim=False, code=None): return A(kw, 'num', multi, mdim, code)
def REF(kw, target, multi=True): return A(kw, 'ref', multi, code=R.OBNAME, targets=(target,) if target else None)


KINDS = {
    'axis': dict(set_type='AXIS', lrtype=2, method='add_axis', attrs=[
        I('axis_id'), A('coordinates', 'mixed', True), N('spacing')]),
    'calibration': dict(set_type='CALIBRATION', lrtype=5, method='add_calibration', attrs=[
        REF('calibrated_channels', 'channel'), REF('uncalibrated_channels', 'channel'),
        REF('coefficients', 'calibration_coefficient'), REF('measurements', 'calibration_measurement'),
        REF('parameters', 'parameter'), I('method')]),
    'calibration_coefficient': dict(set_type='CALIBRATION-COEFFICIENT', lrtype=5,
                                    method='add_calibration_coefficient', attrs=[
        I('label'), N('coefficients', True), N('references', True), N('plus_tolerances', True),
        N('minus_tolerances', True)]),
    'calibration_measurement': dict(set_type='CALIBRATION-MEASUREMENT', lrtype=5,
                                    method='add_calibration_measurement', attrs=[
        A('phase', 'enum', code=R.IDENT), A('measurement_source', 'objref', code=R.OBJREF),
        I('measurement_type', attr='type'), A('dimension', 'dim', True, code=R.UVARI),
        REF('axis', 'axis'), N('measurement', True, True), A('sample_count', 'int'),
        N('maximum_deviation', True, True), N('standard_deviation', True, True), A('begin_time', 'dtimef'),
        N('duration'), N('reference', True, True), N('standard', True, True), N('plus_tolerance', True, True),
        N('minus_tolerance', True, True)]),
    'channel': dict(set_type='CHANNEL', lrtype=3, method='add_channel', attrs=[
        A('long_name', 'reftext', targets=('long_name',)), A('properties', 'props', True, code=R.IDENT),
        A(None, 'rcode', code=R.USHORT, attr='representation_code'), A('units', 'enum', code=R.IDENT),
        A('dimension', 'dim', True, code=R.UVARI), REF('axis', 'axis'), A('element_limit', 'dim', True, code=R.UVARI),
        A('source', 'objref', code=R.OBJREF), N('minimum_value', True, code=R.FDOUBL),
        N('maximum_value', True, code=R.FDOUBL)]),
    'comment': dict(set_type='COMMENT', lrtype=6, method='add_comment', attrs=[T('text', True)]),
    'computation': dict(set_type='COMPUTATION', lrtype=5, method='add_computation', attrs=[
        A('long_name', 'reftext', targets=('long_name',)), A('properties', 'props', True, code=R.IDENT),
        A('dimension', 'dim', True, code=R.UVARI), REF('axis', 'axis'), REF('zones', 'zone'),
        N('values', True, True), REF('source', None, multi=False)]),
    'equipment': dict(set_type='EQUIPMENT', lrtype=5, method='add_equipment', attrs=[
        T('trademark_name'), A('status', 'status', code=R.STATUS), A('eq_type', 'enum', code=R.IDENT, attr='_type'),
        I('serial_number'), A('location', 'enum', code=R.IDENT), N('height'), N('length'), N('minimum_diameter'),
        N('maximum_diameter'), N('volume'), N('weight'), N('hole_size'), N('pressure'), N('temperature'),
        N('vertical_depth'), N('radial_drift'), N('angular_drift')]),
    'frame': dict(set_type='FRAME', lrtype=4, method='add_frame', attrs=[
        T('description'), REF('channels', 'channel'), A('index_type', 'enum', code=R.IDENT), I('direction'),
        N('spacing'), A('encrypted', 'enc', code=R.USHORT), N('index_min'), N('index_max')]),
    'group': dict(set_type='GROUP', lrtype=5, method='add_group', attrs=[
        T('description'), I('object_type'), A('object_list', 'objref', True, code=R.OBJREF),
        REF('group_list', 'group')]),
    'long_name': dict(set_type='LONG-NAME', lrtype=9, method='add_long_name', attrs=[
        T('general_modifier', True), T('quantity'), T('quantity_modifier', True), T('altered_form'), T('entity'),
        T('entity_modifier', True), T('entity_number'), T('entity_part'), T('entity_part_number'),
        T('generic_source'), T('source_part', True), T('source_part_number', True), T('conditions', True),
        T('standard_symbol'), T('private_symbol')]),
    'message': dict(set_type='MESSAGE', lrtype=6, method='add_message', attrs=[
        I('message_type', attr='_type'), A('time', 'dtimef'), N('borehole_drift'), N('vertical_depth'),
        N('radial_drift'), N('angular_drift'), T('text', True)]),
    'no_format': dict(set_type='NO-FORMAT', lrtype=8, method='add_no_format', attrs=[
        I('consumer_name'), T('description')]),
    'origin': dict(set_type='ORIGIN', lrtype=1, method='add_origin', attrs=[
        A(None, 'text', code=R.ASCII, attr='file_id'), I('file_set_name'),
        A('file_set_number', 'int', code=R.UVARI), A('file_number', 'int', code=R.UVARI), I('file_type'),
        T('product'), T('version'), T('programs', True), A('creation_time', 'dtime', code=R.DTIME),
        T('order_number'), A('descent_number', 'int', code=R.UNORM), A('run_number', 'int', code=R.UNORM),
        T('well_id'), T('well_name'), T('field_name'), A('producer_code', 'int', code=R.UNORM), T('producer_name'),
        T('company'), I('name_space_name'), A('name_space_version', 'int', code=R.UVARI)]),
    'parameter': dict(set_type='PARAMETER', lrtype=5, method='add_parameter', attrs=[
        A('long_name', 'reftext', targets=('long_name',)), A('dimension', 'dim', True, code=R.UVARI),
        REF('axis', 'axis'), REF('zones', 'zone'), A('values', 'mixed', True, True)]),
    'path': dict(set_type='PATH', lrtype=4, method='add_path', attrs=[
        REF('frame_type', 'frame', multi=False), REF('well_reference_point', 'well_reference_point', multi=False),
        REF('value', 'channel'), N('borehole_depth'), N('vertical_depth'), N('radial_drift'), N('angular_drift'),
        N('time'), N('depth_offset'), N('measure_point_offset'), N('tool_zero_offset')]),
    'process': dict(set_type='PROCESS', lrtype=5, method='add_process', attrs=[
        T('description'), T('trademark_name'), T('version'), A('properties', 'props', True, code=R.IDENT),
        A('status', 'enum', code=R.IDENT), REF('input_channels', 'channel'), REF('output_channels', 'channel'),
        REF('input_computations', 'computation'), REF('output_computations', 'computation'),
        REF('parameters', 'parameter'), T('comments', True)]),
    'splice': dict(set_type='SPLICE', lrtype=5, method='add_splice', attrs=[
        REF('output_channel', 'channel', multi=False), REF('input_channels', 'channel'), REF('zones', 'zone')]),
    'tool': dict(set_type='TOOL', lrtype=5, method='add_tool', attrs=[
        T('description'), T('trademark_name'), T('generic_name'), REF('parts', 'equipment'),
        A('status', 'status', code=R.STATUS), REF('channels', 'channel'), REF('parameters', 'parameter')]),
    'well_reference_point': dict(set_type='WELL-REFERENCE', lrtype=1, method='add_well_reference_point', attrs=[
        T('permanent_datum'), T('vertical_zero'), N('permanent_datum_elevation', code=R.FDOUBL),
        N('above_permanent_datum', code=R.FDOUBL), N('magnetic_declination', code=R.FDOUBL),
        T('coordinate_1_name'), N('coordinate_1_value', code=R.FDOUBL), T('coordinate_2_name'),
        N('coordinate_2_value', code=R.FDOUBL), T('coordinate_3_name'), N('coordinate_3_value', code=R.FDOUBL)]),
    'zone': dict(set_type='ZONE', lrtype=5, method='add_zone', attrs=[
        T('description'), A('domain', 'enum', code=R.IDENT), A('maximum', 'dtimef'), A('minimum', 'dtimef')]),
}

SET_TYPE_TO_KIND = {v['set_type']: k for k, v in KINDS.items()}


def attr_defs(kind: str) -> list[AttrDef]:
    return KINDS[kind]['attrs']


def attr_by_kw(kind: str, kw: str) -> AttrDef:
    for a in KINDS[kind]['attrs']:
        if a.kw == kw or a.attr == kw:
            return a
    raise KeyError(f"{kind}.{kw}")


# labels a reader may find although the user never assigned them (documented write-time defaults)
DEFAULT_LABELS = {
    'origin': {'FILE-ID', 'FILE-SET-NUMBER', 'CREATION-TIME', 'FIELD-NAME'},
    'channel': {'LONG-NAME', 'REPRESENTATION-CODE', 'DIMENSION', 'ELEMENT-LIMIT'},
    'frame': {'SPACING', 'INDEX-MIN', 'INDEX-MAX', 'DIRECTION'},
    'parameter': {'DIMENSION'},
    'computation': {'DIMENSION'},
    'calibration_measurement': {'DIMENSION'},
}

DTYPE_CODES = {'int8': R.SSHORT, 'int16': R.SNORM, 'int32': R.SLONG, 'uint8': R.USHORT, 'uint16': R.UNORM,
               'uint32': R.ULONG, 'float32': R.FSINGL, 'float64': R.FDOUBL}
_DT_CODES = {'f8': 'float64', 'f4': 'float32', 'i1': 'int8', 'i2': 'int16', 'i4': 'int32', 'u1': 'uint8', 'u2': 'uint16',
             'u4': 'uint32'}


def norm_dtype(name):
    """'float32', '>f4', '<f4', '=f4' -> 'float32' (the byte order of a declared cast never changes the values)."""
    if name is None:
        return None
    n = name.lstrip('<>=|')
    return _DT_CODES.get(n, n)


DTYPE_SIZES = {'int8': 1, 'int16': 2, 'int32': 4, 'uint8': 1, 'uint16': 2, 'uint32': 4, 'float32': 4, 'float64': 8}
