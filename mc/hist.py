"""Event alphabet for explicit-state search (E2) over builder-API histories of one logical file.

A state is the event history reaching it.  ``enabled_events`` is computed from the history alone (i.e. from the
model, never from the implementation); ``to_spec`` turns a history into a specification, appending the completion
suffix (origin / channel / frame added *last*) that makes the file writable, so that every state can be checked by
writing it.  All objects are called 'X' (then 'Y') so that names collide within and across types.
"""
from __future__ import annotations

import hashlib
import json
from typing import Any

from mc import spec as S

MAXC = {'O': 2, 'O5': 1, 'AX': 2, 'ZN': 2, 'LN': 1, 'CH': 3, 'CHS': 1, 'FR': 2, 'PA': 2, 'TO': 1, 'GR': 2, 'NF': 1,
        'ZN2': 1, 'CP': 1, 'SP': 1, 'PT': 1, 'CA': 1, 'PR': 1, 'EQ': 1, 'WR': 1, 'AXY': 1, 'ZNE': 1, 'OS': 1, 'O0': 1}
QUICK_EVENTS = ['O', 'O5', 'O0', 'AX', 'ZN', 'LN', 'CH', 'CHS', 'FR', 'PA', 'TO', 'GR', 'NF', 'ZN2']
THOROUGH_EVENTS = QUICK_EVENTS + ['CP', 'SP', 'PT', 'CA', 'PR', 'EQ', 'WR', 'AXY']


def count(hist: list, ev: str) -> int:
    return sum(1 for e in hist if e == ev)


def enabled_events(hist: list, tier: str, events: list = None) -> list:
    evs = events if events is not None else (QUICK_EVENTS if tier == 'quick' else THOROUGH_EVENTS)
    out = []
    n_origin = count(hist, 'O') + count(hist, 'O5') + count(hist, 'OS') + count(hist, 'O0')
    n_ch = count(hist, 'CH') + count(hist, 'CHS')
    for e in evs:
        if count(hist, e) >= MAXC[e]:
            continue
        if e == 'FR' and n_ch - _channels_in_frames(hist) < 1:
            continue
        if e == 'ZN2' and n_origin < 2:
            continue
        if e in ('SP', 'PT', 'CA', 'PR') and n_ch < 1:
            continue
        if e == 'PT' and count(hist, 'FR') < 1:
            continue
        out.append(e)
    return out


def _channels_in_frames(hist: list) -> int:
    """Number of channels consumed by FR events (each FR takes the free channels with pairwise distinct names)."""
    free: list[str] = []
    used = 0
    i = 0
    for e in hist:
        if e in ('CH', 'CHS'):
            free.append('Y' if i == 2 else 'X')
            i += 1
        elif e == 'FR':
            seen = set()
            for nm in list(free):
                if nm not in seen:
                    seen.add(nm)
                    free.remove(nm)
                    used += 1
    return used


def to_spec(hist: list, complete: bool = True, vrl: int = 8192) -> dict:
    ops: list[dict] = [S.op_lf()]
    H: dict[str, list[str]] = {}        # kind -> handles in creation order
    free_ch: list[str] = []
    n = 0

    def h(kind: str) -> str:
        nonlocal n
        n += 1
        hh = f"{kind}{n}"
        H.setdefault(kind, []).append(hh)
        return hh

    def refs(kind: str) -> list[dict]:
        return [{'$ref': x} for x in H.get(kind, [])]

    def last(kind: str):
        return {'$ref': H[kind][-1]} if H.get(kind) else None

    def kwf(**kw: Any) -> dict:
        return {k: v for k, v in kw.items() if v not in (None, [])}

    ch_name: dict[str, str] = {}

    def take_distinct() -> list[str]:
        # several same-named channels in one frame are a rejected input: a frame takes the free channels with
        # pairwise distinct names (oldest first); the others stay free for the next frame
        seen, take = set(), []
        for c in list(free_ch):
            if ch_name[c] not in seen:
                seen.add(ch_name[c])
                take.append(c)
                free_ch.remove(c)
        return take

    second_origin_ref = None
    origin_refs: list[int] = []
    for e in hist:
        if e in ('O', 'O5', 'OS', 'O0'):
            # OS: a second, named ORIGIN set; O0: reference 0 requested explicitly (0 means "choose one", like None)
            kw = {'origin_reference': 5} if e == 'O5' else {'set_name': 'S'} if e == 'OS' else \
                {'origin_reference': 0} if e == 'O0' else {}
            ops.append(S.op_origin(h('origin'), 'X', **kw))
            # mirror of the documented numbering, needed only to pick an *existing* second origin reference below
            if e == 'O5':
                new = 5
            else:
                new = len(origin_refs)
                while new in origin_refs:
                    new += 1
            origin_refs.append(new)
        elif e in ('AX', 'AXY'):
            ops.append(S.op_add('axis', h('axis'), 'X' if e == 'AX' else 'Y', **kwf(axis_id='AID')))
        elif e == 'ZN':
            ops.append(S.op_add('zone', h('zone'), 'X'))
        elif e == 'ZNE':
            ops.append(S.op_add('zone', h('zone'), 'X', set_name=''))      # the empty string as set name
        elif e == 'ZN2':
            ops.append(S.op_add('zone', h('zone'), 'Y', origin_reference=origin_refs[1]))
        elif e == 'LN':
            ops.append(S.op_add('long_name', h('long_name'), 'X', quantity='Q'))
        elif e in ('CH', 'CHS'):
            i = len(H.get('channel', []))
            pat = [0x3FF0000000000000 + i, 0x4000000000000000 + i]
            hh = h('channel')
            ln = last('long_name') if i % 2 == 0 else ('long name text' if i == 1 else None)
            kw = kwf(data=S.arr_spec('float64', [2], pat), axis=refs('axis')[-1:], long_name=ln,
                     source=last('tool'), set_name='S' if e == 'CHS' else None)
            nm = 'Y' if i == 2 else 'X'
            ops.append(S.op_add('channel', hh, nm, **kw))
            free_ch.append(hh)
            ch_name[hh] = nm
        elif e == 'FR':
            take = take_distinct()
            ops.append(S.op_add('frame', h('frame'), 'X', channels=[{'$ref': c} for c in take]))
        elif e == 'PA':
            z = refs('zone')
            ops.append(S.op_add('parameter', h('parameter'), 'X', **kwf(zones=z, values=[float(k) for k in range(len(z))] or [1.0],
                                                                           long_name=last('long_name'))))
        elif e == 'CP':
            ops.append(S.op_add('computation', h('computation'), 'X', **kwf(zones=refs('zone')[:1], values=[2.5],
                                                                              source=last('tool') or last('channel'))))
        elif e == 'TO':
            ops.append(S.op_add('tool', h('tool'), 'X', **kwf(channels=refs('channel'), parameters=refs('parameter'),
                                                               parts=refs('equipment'))))
        elif e == 'EQ':
            ops.append(S.op_add('equipment', h('equipment'), 'X'))
        elif e == 'GR':
            gl = refs('group')
            ops.append(S.op_add('group', h('group'), 'X', **kwf(object_list=refs('channel') + refs('zone'),
                                                                 group_list=gl)))
        elif e == 'NF':
            hh = h('no_format')
            ops.append(S.op_add('no_format', hh, 'X'))
            ops.append({'op': 'nfdata', 'lf': 'L0', 'nf': hh, 'data': {'$bytes': '00112233445566778899aabbccddeeff'}})
        elif e == 'SP':
            ops.append(S.op_add('splice', h('splice'), 'X', **kwf(output_channel=last('channel'),
                                                                   input_channels=refs('channel')[:1], zones=refs('zone')[:1])))
        elif e == 'PT':
            ops.append(S.op_add('path', h('path'), 'X', **kwf(frame_type=last('frame'), value=refs('channel'),
                                                               well_reference_point=last('well_reference_point'))))
        elif e == 'WR':
            ops.append(S.op_add('well_reference_point', h('well_reference_point'), 'X'))
        elif e == 'CA':
            ops.append(S.op_add('calibration', h('calibration'), 'X', **kwf(calibrated_channels=refs('channel'),
                                                                             parameters=refs('parameter'))))
        elif e == 'PR':
            ops.append(S.op_add('process', h('process'), 'X', **kwf(input_channels=refs('channel'),
                                                                     output_computations=refs('computation'),
                                                                     parameters=refs('parameter'))))
        else:
            raise ValueError(e)
    if complete:
        if free_ch or not H.get('frame'):
            if not free_ch:
                hh = h('channel')
                ops.append(S.op_add('channel', hh, 'ZC', data=S.arr_spec('float64', [2], [0x3FF0000000000000, 0x4000000000000000])))
                free_ch.append(hh)
                ch_name[hh] = 'ZC'
            while free_ch:
                take = take_distinct()
                ops.append(S.op_add('frame', h('frame'), 'ZF', channels=[{'$ref': c} for c in take]))
        if not H.get('origin'):
            ops.append(S.op_origin(h('origin'), 'ZO'))
    return {'sul': {'max_record_length': vrl}, 'ops': ops, 'write': {}}


def canon(hist: list) -> str:
    """Canonical state key. The file layout depends on the creation order of sets and objects, so the canonical form
    is the op list itself (handles are positional, hence equal op lists = equal futures)."""
    return hashlib.sha256(json.dumps(to_spec(hist, complete=False)['ops'], sort_keys=True).encode()).hexdigest()[:20]


def free_channels(hist: list) -> list:
    """Names of the channels not yet taken by a frame, in creation order (part of the canonical state: it decides what
    the next FR event and the completion suffix do)."""
    free: list[str] = []
    i = 0
    for e in hist:
        if e in ('CH', 'CHS'):
            free.append(('Y' if i == 2 else 'X') + ('/S' if e == 'CHS' else '') + f'#{i}')
            i += 1
        elif e == 'FR':
            seen = set()
            for nm in list(free):
                base = nm[0]
                if base not in seen:
                    seen.add(base)
                    free.remove(nm)
    return free
