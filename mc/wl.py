"""Writer-level driver: the real DLISWriter / BufferedOutput / ByteWriter / LogicalRecordBytes / StorageUnitLabel
driven with synthetic logical records (real LogicalRecord subclasses, so LRMeta's per-class type cache is used).

A case is plain JSON:
  {'vrl': int, 'recs': [[cls_name, L, variant], ...], 'ocs': output chunk size, 'sul': {'seq':, 'setid':}}
"""
from __future__ import annotations

import os
from typing import Any, Optional

from mc import rp66
from mc.engine import scratch_dir, sha

_CLASSES: dict[str, type] = {}

REC_CLASSES = {  # name -> (is_eflr, type)
    'E0': (True, 0), 'E3': (True, 3), 'E5': (True, 5), 'E11': (True, 11), 'I0': (False, 0), 'I1': (False, 1),
}


def _classes() -> dict[str, type]:
    if not _CLASSES:
        from dliswriter.logical_record.core.logical_record.logical_record import LogicalRecord
        from dliswriter.utils.internal.internal_enums import EFLRType, IFLRType

        for name, (is_e, typ) in REC_CLASSES.items():
            def _make_body_bytes(self) -> bytes:
                return self.body

            def __init__(self, body: bytes) -> None:
                LogicalRecord.__init__(self)
                self.body = body
            _CLASSES[name] = type(f'Synthetic{name}', (LogicalRecord,), {
                'is_eflr': is_e, 'logical_record_type': (EFLRType(typ) if is_e else IFLRType(typ)),
                '_make_body_bytes': _make_body_bytes, '__init__': __init__})
    return _CLASSES


def make_body(L: int, rec: int, variant: int) -> bytes:
    """Position-dependent content; variants end in bytes that a pad-count mix-up would swallow."""
    b = bytearray((31 * i + 7 * rec + 3 * variant + 1) % 251 for i in range(L))
    tails = {1: b'\x01', 2: b'\x02\x02', 3: b'\x0c' * 12, 4: b'\x01\x01\x01'}
    t = tails.get(variant)
    if t and L >= len(t):
        b[L - len(t):] = t
    return bytes(b)


class _Seq(list):
    """A sized sequence of records (what DLISFile hands to the writer)."""


def run_writer(case: dict) -> dict:
    """Execute one writer-level case on the real code. Returns {'exc':..} or {'data': bytes, 'given': [...], 'total':}."""
    from dliswriter.file.writer import DLISWriter
    from dliswriter.logical_record.misc.storage_unit_label import StorageUnitLabel

    vrl = case['vrl']
    sulp = case.get('sul') or {}
    path = os.path.join(scratch_dir(), 'wl.dlis')
    if os.path.exists(path):
        os.remove(path)
    cl = _classes()
    given = []
    recs = _Seq()
    for i, (cn, L, variant) in enumerate(case['recs']):
        body = make_body(L, i, variant)
        recs.append(cl[cn](body))
        given.append((REC_CLASSES[cn][0], REC_CLASSES[cn][1], body))
    try:
        sul = StorageUnitLabel(sulp.get('setid', 'SET-ID'), sequence_number=sulp.get('seq', 1), max_record_length=vrl)
        w = DLISWriter(path, visible_record_length=vrl)
        w.write_storage_unit_label(sul)
        w.write_logical_records(recs, output_chunk_size=case.get('ocs', 2 ** 16))
        total = w._byte_writer.total_size
    except Exception as exc:  # noqa
        return {'exc': f"{type(exc).__name__}: {exc}", 'given': given}
    with open(path, 'rb') as f:
        data = f.read()
    return {'data': data, 'given': given, 'total': total}


# ---------------------------------------------------------------------------------------------------------------------
# oracles
# ---------------------------------------------------------------------------------------------------------------------
def check_layout(data: bytes, vrl: int, seq: int = 1, setid: str = 'SET-ID') -> Optional[tuple[str, str]]:
    """C01 oracle on raw bytes. Returns (reason code, detail) or None."""
    try:
        p = rp66.parse_physical(data)
    except rp66.FormatError as e:
        return e.code, str(e)
    s = p.sul
    if s['seq'] != seq:
        return 'sul_seq_value', f"label sequence number {s['seq']} != configured {seq}"
    if s['maxlen'] != vrl:
        return 'sul_maxlen_value', f"label maximum record length {s['maxlen']} != configured {vrl}"
    if s['setid'] != setid.ljust(60):
        return 'sul_setid_value', f"label set identifier {s['setid']!r} != configured {setid!r} left-justified in 60"
    return None


def check_reassembly(data: bytes, given: list) -> Optional[tuple[str, str]]:
    """C02 oracle: reassembled records == given records (count, order, bytes, flags, type on all segments)."""
    try:
        p = rp66.parse_physical(data)
    except rp66.FormatError as e:
        if e.code in ('seg_bracket', 'seg_type', 'seg_structure', 'seg_padcount'):
            return e.code, str(e)
        return 'unparsable', str(e)
    if len(p.records) != len(given):
        return 'record_count', f"{len(p.records)} records in file, {len(given)} given"
    for i, (r, (is_e, typ, body)) in enumerate(zip(p.records, given)):
        if r.is_eflr != is_e:
            return 'record_structure', f"record {i}: EFLR flag {r.is_eflr}, given {is_e}"
        if r.type != typ:
            return 'record_type', f"record {i}: type {r.type}, given {typ}"
        if r.body != body:
            k = next((j for j in range(min(len(r.body), len(body))) if r.body[j] != body[j]), min(len(r.body), len(body)))
            return 'record_body', (f"record {i}: body differs at byte {k} (file has {len(r.body)} bytes, "
                                   f"given {len(body)}): file …{r.body[max(0, k - 4):k + 8].hex()} "
                                   f"given …{body[max(0, k - 4):k + 8].hex()}")
    # each visible record holds exactly the segments the parser tiled; records never interleave by construction of
    # the reassembly (a continuation segment of another record fails the bracket/type/structure checks above),
    # but equal-typed records could interleave undetected only if bodies matched — body comparison above covers it.
    return None


def window(cap: int) -> list[int]:
    """Body lengths covering every branch of the splitting arithmetic relative to capacity ``cap``."""
    w = set(range(1, 61))
    for k in (1, 2, 3):
        for d in range(-14, 15):
            v = k * cap + d
            if v >= 1:
                w.add(v)
    return sorted(w)


def digest_of(res: dict) -> str:
    if 'exc' in res:
        return 'exc:' + res['exc'][:60]
    return sha(res['data'])


# ---------------------------------------------------------------------------------------------------------------------
# shared enumeration of writer-level cases (C01, C02, C15 use different oracles on the same space)
# ---------------------------------------------------------------------------------------------------------------------
SPECIAL_VRLS = [254, 256, 258, 1000, 1022, 1024, 4096, 8190, 8192, 8194, 16382, 16384]


def vrl_list(tier: str) -> list[int]:
    if tier == 'thorough':
        return list(range(20, 16385, 2))
    return list(range(20, 130, 2)) + SPECIAL_VRLS


def wl_shards(tier: str) -> list[dict]:
    v = vrl_list(tier)
    n = 8 if tier == 'quick' else 64
    out = [{'kind': 'wl', 'vrls': v[i:i + n]} for i in range(0, len(v), n)]
    return out


def pair_window(cap: int) -> list[int]:
    s = {12, 13, 20, cap - 13, cap - 12, cap - 11, cap - 1, cap, cap + 1, cap + 11, cap + 12, cap + 13,
         2 * cap - 1, 2 * cap, 2 * cap + 1, 2 * cap + 11, 2 * cap + 12, 3 * cap, 3 * cap + 5}
    return sorted(x for x in s if x >= 12)


def wl_cases(shard: dict, tier: str):
    for vrl in shard['vrls']:
        cap = vrl - 8
        for L in window(max(cap, 12)):
            for cn in ('E3', 'I0'):
                for ocs in (vrl, 2 ** 16):
                    yield {'vrl': vrl, 'recs': [[cn, L, L % 5]], 'ocs': ocs}
        if vrl in (20, 64, 128):
            # one record of a thousand and more segments
            for nseg in (990, 2500):
                for r in (0, 5):
                    yield {'vrl': vrl, 'recs': [['I1', nseg * cap + r, r % 5]], 'ocs': 2 ** 16}
        if vrl <= 128 or vrl in SPECIAL_VRLS:
            pw = pair_window(max(cap, 24))
            for a in pw:
                for b in pw:
                    for c1, c2 in (('E3', 'I1'), ('I0', 'E5')):
                        yield {'vrl': vrl, 'recs': [[c1, a, a % 5], [c2, b, (b + 1) % 5]], 'ocs': 3 * vrl}
            tri = [13, cap + 5, 2 * cap + 12]
            for a in tri:
                for b in tri:
                    for c in tri:
                        yield {'vrl': vrl, 'recs': [['E0', a, 1], ['E11', b, 2], ['I0', c, 3]], 'ocs': vrl + 2}
                        yield {'vrl': vrl, 'recs': [['I0', a, 4], ['I0', b, 0], ['E3', c, 1]], 'ocs': 2 * vrl}


# ---------------------------------------------------------------------------------------------------------------------
# end-to-end specifications written through DLISFile.write (used by C01 and C02 in addition to the synthetic records)
# ---------------------------------------------------------------------------------------------------------------------
E2E_SPECS = ['minimal', 'two-frames', 'noformat', 'rich']


def e2e_spec(name: str, vrl: int, setid: str = 'E2E-SET', seq: int = 1) -> dict:
    from mc import spec as S
    from mc import selftest_dlisio
    from mc.props import c10
    if name == 'minimal':
        sp = S.minimal_spec(vrl=vrl, rows=3, dtype='uint8')
    elif name == 'rich':
        sp = selftest_dlisio.rich_spec(vrl)
    else:
        sp = c10.make_spec(vrl, name)
    sp['sul'].update(set_identifier=setid, sul_sequence_number=seq)
    return sp


def e2e_cases(shard: dict, tier: str):
    for vrl in shard['vrls']:
        for name in E2E_SPECS:
            for ics in (None, 1):
                for ocs in (vrl, 2 ** 16):
                    yield {'e2e': name, 'vrl': vrl, 'ics': ics, 'ocs': ocs}
            # label and file header handed over as ready-made objects instead of their parameters
            yield {'e2e': name, 'vrl': vrl, 'ics': None, 'ocs': 2 ** 16, 'objects': True}
            # a (much longer / shorter) file is already at the target path
            yield {'e2e': name, 'vrl': vrl, 'ics': None, 'ocs': vrl, 'prior': 300000}
            yield {'e2e': name, 'vrl': vrl, 'ics': None, 'ocs': 2 ** 16, 'prior': 100}
        # the label is re-configured through its public attributes after the file object was created
        for other in (20, 64, 8192, 16384):
            if other != vrl:
                yield {'e2e': 'two-frames', 'vrl': vrl, 'ics': None, 'ocs': 2 ** 16, 'created_with': other}


def e2e_shards(tier: str) -> list[dict]:
    v = vrl_list(tier)
    if tier == 'thorough':
        v = list(range(20, 1026, 2)) + [x for x in SPECIAL_VRLS if x > 1026]
    n = 12 if tier == 'quick' else 48
    return [{'kind': 'e2e', 'vrls': v[i:i + n]} for i in range(0, len(v), n)]


TAP: list = []
_TAP_ON = False


def install_segment_tap() -> None:
    """Wrap LogicalRecordBytes.make_segments so that the harness learns what the segmenter was given."""
    global _TAP_ON
    if _TAP_ON:
        return
    from dliswriter.logical_record.core.logical_record.logical_record_bytes import LogicalRecordBytes
    orig = LogicalRecordBytes.make_segments

    def tapped(self, *args, **kwargs):
        if self._bts:
            TAP.append((bool(self._is_eflr), self._lr_type_struct[0] if self._lr_type_struct else None, bytes(self._bts)))
        return orig(self, *args, **kwargs)
    LogicalRecordBytes.make_segments = tapped
    _TAP_ON = True


def run_e2e(case: dict) -> dict:
    from mc import spec as S
    install_segment_tap()
    sp = e2e_spec(case['e2e'], case['vrl'])
    if case.get('created_with'):
        sp['sul'] = {'max_record_length': case['created_with'], 'set_identifier': 'FIRST-ID', 'sul_sequence_number': 7}
        sp['ops'].append({'op': 'sul', 'kw': {'max_record_length': case['vrl'], 'set_identifier': 'E2E-SET',
                                               'sequence_number': 1}})
    if case.get('objects'):
        sp['object_route'] = True
    sp['write'] = {'output_chunk_size': case['ocs']}
    if case['ics']:
        sp['write']['input_chunk_size'] = case['ics']
    del TAP[:]
    res = S.run_spec(sp, pre=(bytes([0x5a, 0xff, 0x01, 0x00]) * (case['prior'] // 4) if case.get('prior') else None))
    given = list(TAP)
    if res['failed_at'] is not None or res['write'] != 'ok':
        return {'exc': res['status'][-1] if res['failed_at'] is not None else res['write'], 'given': given}
    return {'data': res['data'], 'given': given, 'total': len(res['data'])}
