"""Reference model of the dliswriter builder API (dicts and lists only; never imports dliswriter) and the
comparators that check a strictly decoded file against it.

The model consumes the same specification as the driver (mc/spec.py) and computes what a reader must see:
per logical file the header, the ordered inventory of sets and objects with identity (origin, copy, name),
every assigned attribute value/unit, the rows of every frame as big-endian bytes and the no-format payloads.
Implementation-only matters (which code is inferred for an un-coded attribute) are left open.
"""
from __future__ import annotations

import math
import struct
from collections import OrderedDict
from datetime import datetime, timedelta, timezone
from typing import Any, Optional

from mc import rp66 as R
from mc.schema import KINDS, DEFAULT_LABELS, DTYPE_CODES, DTYPE_SIZES, attr_by_kw, attr_defs, SET_TYPE_TO_KIND, norm_dtype

NUM_CODES = set(range(1, 19))
FLOAT_CODES = set(range(1, 12))
INT_CODES = set(range(12, 19))


class MObj:
    def __init__(self, kind: str, name: str, h: str, lf: 'MLF', set_name: Optional[str]):
        self.kind, self.name, self.h, self.lf, self.set_name = kind, name, h, lf, set_name
        self.origin: Optional[int] = None
        self.copy = 0
        self.attrs: dict[str, dict] = {}        # attr python name -> {'value': encoded, 'units': str}
        self.data: Optional[dict] = None        # channel inline data ($arr)
        self.dataset_name: Optional[str] = None
        self.cast: Optional[str] = None

    @property
    def set_type(self) -> str:
        return KINDS[self.kind]['set_type']

    def ident(self) -> R.ObName:
        return R.ObName(self.origin if self.origin is not None else -1, self.copy, self.name)


class MLF:
    def __init__(self, h: str, kw: dict):
        self.h = h
        self.fh_id = kw.get('fh_id', 'FILE-HEADER')
        self.fh_seq = kw.get('fh_sequence_number', 1)
        self.fh_identifier = kw.get('fh_identifier', '0')
        self.sets: 'OrderedDict[tuple, list[MObj]]' = OrderedDict()
        self.nf: list[tuple[str, bytes]] = []
        self.data_dict: 'OrderedDict[str, dict]' = OrderedDict()

    def objs_of(self, kind: str) -> list[MObj]:
        return [o for (k, _), lst in self.sets.items() if k == kind for o in lst]


class Model:
    def __init__(self, spec: dict):
        self.spec = spec
        sul = spec.get('sul') or {}
        self.setid = sul.get('set_identifier', 'MAIN-STORAGE-UNIT')
        self.sul_seq = sul.get('sul_sequence_number', 1)
        self.vrl = sul.get('max_record_length', 8192)
        self.lfs: list[MLF] = []
        self.lf_by_h: dict[str, MLF] = {}
        self.objs: dict[str, MObj] = {}
        self.set_owner: dict[tuple, str] = {}       # (kind, set_name) -> lf handle that first used it
        self.shared_sets: list[tuple] = []          # (kind,set_name) used by more than one logical file
        for op in spec['ops']:
            if op.get('expect', 'ok') == 'ok':
                self.apply(op)

    # -----------------------------------------------------------------------------------------------------------------
    def apply(self, op: dict) -> None:
        k = op['op']
        if k == 'lf':
            lf = MLF(op['h'], op.get('kw') or {})
            self.lfs.append(lf)
            self.lf_by_h[op['h']] = lf
        elif k == 'add':
            self._add(op)
        elif k == 'set':
            o = self.objs[op['h']]
            ent = o.attrs.setdefault(op['attr'], {'value': None, 'units': None})
            part = op.get('part', 'value')
            ent['value' if part == 'value' else 'units'] = op['value']
        elif k == 'setattrs':
            o = self.objs[op['h']]
            for key, v in op['kw'].items():
                self._assign(o, key, v)
        elif k == 'origin_ref':
            self.objs[op['h']].origin = op['value']
        elif k == 'nfdata':
            d = op['data']
            if isinstance(d, str):
                b = d.encode('ascii')
            elif '$bytes' in d:
                b = bytes.fromhex(d['$bytes'])
            else:
                b = bytes.fromhex(d['$bytearray'])
            self.lf_by_h[op['lf']].nf.append((op['nf'], b))
        elif k == 'sul':
            kw = op['kw']
            self.setid = kw.get('set_identifier', self.setid)
            self.sul_seq = kw.get('sequence_number', self.sul_seq)
            self.vrl = kw.get('max_record_length', self.vrl)
        elif k == 'setname':
            o = self.objs[op['h']]
            old = (o.kind, o.set_name)
            lst = o.lf.sets[old]
            new = OrderedDict()
            for key, val in o.lf.sets.items():
                new[(o.kind, op['value']) if key == old else key] = val
            o.lf.sets = new
            for x in lst:
                x.set_name = op['value']
        elif k == 'dsname':
            self.objs[op['h']].dataset_name = op['value']
        elif k == 'cast':
            self.objs[op['h']].cast = norm_dtype(op['value']['$dtype']) if op['value'] else None
        elif k in ('hc', 'rename'):
            if k == 'rename':
                self.objs[op['h']].name = op['value']

    def _assign(self, o: MObj, key: str, v: Any) -> None:
        ent = o.attrs.setdefault(key, {'value': None, 'units': None})
        if isinstance(v, dict) and ('$as' in v or '$dict' in v):
            d = v.get('$as') or v.get('$dict')
            if d.get('value') is not None:
                ent['value'] = d['value']
            if d.get('units') is not None:
                ent['units'] = d['units']
        else:
            ent['value'] = v

    def _add(self, op: dict) -> None:
        kind = op['kind']
        lf = self.lf_by_h[op['lf']]
        kw = dict(op.get('kw') or {})
        set_name = kw.pop('set_name', None) or None      # '' names the unnamed set
        key = (kind, set_name)
        owner = self.set_owner.setdefault(key, lf.h)
        if owner != lf.h and key not in self.shared_sets:
            self.shared_sets.append(key)
        lst = lf.sets.setdefault(key, [])
        o = MObj(kind, op['name'], op['h'], lf, set_name)
        # identity = (set type, origin, copy, name): same-named objects of one type get distinct copy numbers, also when
        # they sit in differently named sets of that type
        o.copy = sum(1 for x in lf.objs_of(kind) if x.name == o.name)
        oref = kw.pop('origin_reference', None)
        if kind == 'origin':
            origins = lf.objs_of('origin')
            used = [x.origin for x in origins]
            if oref:
                new = oref
            else:
                new = len(origins)
                while new in used:
                    new += 1
            o.origin = new
            lst.append(o)
            if len(origins) == 0:
                for other in self.objs.values():
                    if other.origin is None and other.lf is lf:
                        other.origin = new
            o.attrs['file_id'] = {'value': lf.fh_id, 'units': None}
        else:
            origins = lf.objs_of('origin')
            o.origin = oref or (origins[0].origin if origins else None)
            lst.append(o)
        if kind == 'channel':
            o.data = kw.pop('data', None)
            dn = kw.pop('dataset_name', None)
            existing = [c.dataset_name for c in lf.objs_of('channel') if c is not o]
            if dn is None:
                dn = o.name
                if dn in existing:
                    i = 1
                    while f"{o.name}__{i}" in existing:
                        i += 1
                    dn = f"{o.name}__{i}"
            o.dataset_name = dn
            cd = kw.pop('cast_dtype', None)
            o.cast = norm_dtype(cd['$dtype']) if cd else None
            if o.data is not None:
                lf.data_dict[dn] = o.data
        for key2, v in kw.items():
            if v is None:
                continue
            ad = attr_by_kw(kind, key2)
            self._assign(o, ad.attr, v)
        self.objs[o.h] = o


# ---------------------------------------------------------------------------------------------------------------------
# value normalisation
# ---------------------------------------------------------------------------------------------------------------------
def _flatten(v: Any) -> list:
    out = []
    for x in v:
        if isinstance(x, list) or (isinstance(x, dict) and '$tuple' in x):
            out.extend(_flatten(x['$tuple'] if isinstance(x, dict) else x))
        else:
            out.append(x)
    return out


def local_to_utc(naive: datetime) -> datetime:
    return naive.astimezone(timezone.utc)


def norm_elem(ad, x: Any) -> tuple:
    """Normalise one encoded element to a typed expectation."""
    if isinstance(x, dict):
        if '$ref' in x:
            return ('ref', x['$ref'])
        if '$enum' in x:
            return ('str', x['v'])
        if '$f' in x:
            return ('num', struct.unpack('>d', bytes.fromhex(x['$f']))[0])
        if '$np' in x:
            return ('num', x['$np'][1])
        if '$dt' in x:
            y, m, d, H, M, S, us = x['$dt']
            tz = x.get('tz')
            if tz is None:
                return ('dt', local_to_utc(datetime(y, m, d, H, M, S, us)))
            return ('dt', datetime(y, m, d, H, M, S, us, tzinfo=timezone(timedelta(minutes=tz))).astimezone(timezone.utc))
        raise ValueError(f"model: cannot normalise {x}")
    if ad.typ in ('dtime', 'dtimef') and isinstance(x, str):
        for fmt in ("%Y/%m/%d %H:%M:%S", "%Y.%m.%d %H:%M:%S"):
            try:
                return ('dt', local_to_utc(datetime.strptime(x, fmt)))
            except ValueError:
                pass
        raise ValueError(f"model: unparsable datetime string {x!r}")
    if isinstance(x, bool):
        return ('num', int(x))
    if isinstance(x, (int, float)):
        if ad.typ in ('num',) and ad.code is None:
            return ('num', float(x))        # NumericAttribute without integral code stores floats
        if ad.typ == 'dtimef':
            return ('num', float(x))
        return ('num', x)
    if isinstance(x, str):
        if ad.typ == 'enc':
            return ('num', 1 if x.lower() in ('1', 'true', 't', 'yes', 'y') else 0)
        return ('str', x)
    raise ValueError(f"model: cannot normalise {x!r}")


def norm_value(ad, v: Any) -> list[tuple]:
    if isinstance(v, dict) and '$tuple' in v:
        v = v['$tuple']
    if ad.multi:
        if not isinstance(v, list):
            v = [v]
        elif ad.mdim:
            v = _flatten(v)
        return [norm_elem(ad, x) for x in v]
    return [norm_elem(ad, v)]


def expected_attrs(m: Model, o: MObj) -> dict[str, dict]:
    """label -> {'values': [typed...], 'units': str|None, 'def': AttrDef} for every attribute with an assigned value."""
    out = {}
    for an, ent in o.attrs.items():
        if ent.get('value') is None:
            continue
        ad = attr_by_kw(o.kind, an)
        u = ent.get('units')
        if isinstance(u, dict) and '$enum' in u:
            u = u['v']
        vals = norm_value(ad, ent['value'])
        if not vals:
            continue        # an empty list is "no value": same as never assigned (defaults may then apply)
        out[ad.label] = {'values': vals, 'units': u, 'def': ad}
    return out


# ---------------------------------------------------------------------------------------------------------------------
# comparators
# ---------------------------------------------------------------------------------------------------------------------
def _float_bits_equal(x: float, raw: bytes, code: int) -> bool:
    if code == R.FDOUBL:
        return struct.pack('>d', x) == raw
    if code == R.FSINGL:
        try:
            return struct.pack('>f', x) == raw
        except OverflowError:
            return False
    return False


def cmp_elem(m: Model, exp: tuple, got: Any, raw: bytes, code: int, ad) -> Optional[str]:
    t, x = exp
    if t == 'str':
        want_code = ad.code if ad.code in (R.IDENT, R.ASCII) else None
        if code not in (R.IDENT, R.ASCII, R.UNITS):
            return f"text {x!r} encoded under code {R.CODE_NAMES.get(code)}"
        if want_code and code != want_code:
            return f"text {x!r} encoded as {R.CODE_NAMES[code]}, attribute is {R.CODE_NAMES[want_code]}"
        if got != x:
            return f"text {got!r} != assigned {x!r}"
        return None
    if t == 'num':
        if code not in NUM_CODES and code != R.STATUS:
            return f"number {x!r} encoded under code {R.CODE_NAMES.get(code)}"
        if ad.code is not None and ad.code in NUM_CODES | {R.STATUS} and code != ad.code:
            return f"number {x!r} encoded as {R.CODE_NAMES[code]}, attribute is {R.CODE_NAMES[ad.code]}"
        if isinstance(x, float) and code in (R.FDOUBL, R.FSINGL):
            if not _float_bits_equal(x, raw, code):
                return f"float {x!r} ({struct.pack('>d', x).hex()}) decoded from bytes {raw.hex()} = {got!r}"
            return None
        if isinstance(got, tuple) or got != x or (isinstance(x, float) and math.isnan(x)):
            return f"number {got!r} != assigned {x!r}"
        return None
    if t == 'dt':
        if code != R.DTIME:
            return f"date-time encoded under code {R.CODE_NAMES.get(code)}"
        try:
            g = R.dtime_to_utc(got)
        except R.FormatError as e:
            return str(e)
        if abs((g - x).total_seconds()) > 0.001 + 1e-9:
            return f"date-time {g.isoformat()} != assigned instant {x.isoformat()}"
        return None
    if t == 'ref':
        tgt = m.objs[x]
        if code == R.OBNAME:
            if got != tgt.ident():
                return f"reference {got} != identity {tgt.ident()} of {tgt.set_type} object passed by the user"
            return None
        if code == R.OBJREF:
            if got.type != tgt.set_type or got.obname != tgt.ident():
                return f"reference {got} != ({tgt.set_type}, {tgt.ident()})"
            return None
        return f"reference encoded under code {R.CODE_NAMES.get(code)}"
    return f"model: unknown expectation {exp}"


def find_object(lf: R.LogicalFile, o: MObj) -> tuple[Optional[R.EflrSet], Optional[R.Obj]]:
    for s in lf.sets:
        if s.type == o.set_type and s.name == (o.set_name or None):
            for ob in s.objects:
                if ob.name == o.ident():
                    return s, ob
            return s, None
    return None, None


def check_attrs(m: Model, mlf: MLF, lf: R.LogicalFile, open_labels: Optional[dict] = None,
                kinds: Optional[set] = None) -> list[tuple[str, str]]:
    """C05 oracle: assigned values/units present and equal; unassigned attributes absent (except documented defaults,
    whose values are checked where the documentation fixes them)."""
    errs: list[tuple[str, str]] = []
    open_labels = DEFAULT_LABELS if open_labels is None else open_labels
    for (kind, sname), lst in mlf.sets.items():
        if kinds is not None and kind not in kinds:
            continue
        for o in lst:
            s, ob = find_object(lf, o)
            if ob is None:
                errs.append(('object_missing', f"{o.set_type} object {o.ident()} (set name {sname!r}) not in file"))
                continue
            exp = expected_attrs(m, o)
            tmpl_labels = [t.label for t in s.template]
            for label, e in exp.items():
                ad = e['def']
                a = ob.get(label)
                if label not in tmpl_labels:
                    errs.append(('label_missing', f"{o.set_type}:{o.name}: template has no attribute {label}"))
                    continue
                if not e['values']:
                    # an empty value list is degenerate: faithful encodings are "absent" or "count 0 without value"
                    if a is not None and not a.absent and a.e_values:
                        errs.append(('value_count', f"{o.set_type}:{o.name}.{label}: empty list assigned but file "
                                                    f"holds {a.e_values!r}"))
                    continue
                if a is None or a.absent or a.e_values is None:
                    errs.append(('value_missing', f"{o.set_type}:{o.name}.{label}: assigned {e['values']!r} but absent"))
                    continue
                if len(a.e_values) != len(e['values']):
                    errs.append(('value_count', f"{o.set_type}:{o.name}.{label}: {len(a.e_values)} values in file, "
                                                f"{len(e['values'])} assigned"))
                    continue
                for ex, got, raw in zip(e['values'], a.e_values, a.e_raw):
                    msg = cmp_elem(m, ex, got, raw, a.e_code, ad)
                    if msg:
                        cls = {'str': 'text', 'num': 'number', 'dt': 'dtime', 'ref': 'reference'}[ex[0]]
                        errs.append((f'value_{cls}:{ad.typ}', f"{o.set_type}:{o.name}.{label}: {msg}"))
                        break
                if (a.e_units or None) != (e['units'] or None):
                    errs.append(('units:' + ad.typ, f"{o.set_type}:{o.name}.{label}: units {a.e_units!r} != assigned {e['units']!r}"))
            # never-assigned attributes decode as absent
            for a in ob.attrs:
                if a.absent or a.e_label in exp:
                    continue
                if a.e_label in open_labels.get(kind, ()):
                    continue
                if a.e_values is not None:
                    errs.append(('unassigned_present', f"{o.set_type}:{o.name}.{a.e_label}: never assigned but file "
                                                       f"holds {a.e_values!r}"))
            # documented defaults with a fixed value
            if kind == 'origin':
                if 'FIELD-NAME' not in exp and R.attr_values(ob, 'FIELD-NAME') != ['WILDCAT']:
                    errs.append(('default', f"ORIGIN:{o.name}.FIELD-NAME default is {R.attr_values(ob, 'FIELD-NAME')!r}"))
                fsn = R.attr_values(ob, 'FILE-SET-NUMBER')
                if 'FILE-SET-NUMBER' not in exp and (not fsn or not isinstance(fsn[0], int) or fsn[0] < 1):
                    errs.append(('default', f"ORIGIN:{o.name}.FILE-SET-NUMBER missing or not positive: {fsn!r}"))
                if not R.attr_values(ob, 'CREATION-TIME'):
                    errs.append(('default', f"ORIGIN:{o.name}.CREATION-TIME missing"))
            if kind == 'channel' and 'LONG-NAME' not in exp and R.attr_values(ob, 'LONG-NAME') != [o.name]:
                errs.append(('default', f"CHANNEL:{o.name}.LONG-NAME default is {R.attr_values(ob, 'LONG-NAME')!r}"))
    return errs


def check_inventory(m: Model, mlf: MLF, lf: R.LogicalFile) -> list[tuple[str, str]]:
    """Sets and objects: exactly the expected (type, name) sets, each once, objects in creation order with identity."""
    errs = []
    got_sets = [(s.type, s.name) for s in lf.sets if s.type != 'FILE-HEADER']
    if len(set(got_sets)) != len(got_sets):
        errs.append(('set_duplicate', f"a (type, name) set occurs twice: {got_sets}"))
    exp_sets = {(KINDS[k]['set_type'], sn or None): lst for (k, sn), lst in mlf.sets.items() if lst}
    for key in exp_sets:
        if key not in got_sets:
            errs.append(('set_missing', f"set {key} missing from logical file"))
    for key in got_sets:
        if key not in exp_sets:
            errs.append(('set_unexpected', f"set {key} in file but not in specification of this logical file"))
    for s in lf.sets:
        key = (s.type, s.name)
        if key in exp_sets:
            want = [o.ident() for o in exp_sets[key]]
            got = [ob.name for ob in s.objects]
            if got != want:
                errs.append(('object_list', f"set {key}: objects {got} != expected {want}"))
    return errs


# ---------------------------------------------------------------------------------------------------------------------
# data rows
# ---------------------------------------------------------------------------------------------------------------------
def resolve_data(m: Model, mlf: MLF, ch: MObj) -> Optional[dict]:
    """The $arr specification feeding a channel under the spec's write options (None if no data can be found)."""
    w = m.spec.get('write') or {}
    d = w.get('data')
    dn = ch.dataset_name
    merged = OrderedDict(mlf.data_dict)
    if d is None:
        pass
    elif '$datadict' in d:
        for k, v in d['$datadict'].items():
            merged[k] = v
    elif '$struct' in d:
        if merged:
            return None
        return dict(d['$struct']['fields']).get(dn) if dn in dict(d['$struct']['fields']) else None
    elif '$h5' in d:
        if merged:
            return None
        key = dn.lstrip('/')
        for p, a in d['$h5'].items():
            if p.lstrip('/') == key:
                return a
        return None
    return merged.get(dn)


def elem_patterns(a: dict) -> tuple[str, list[int], list[int]]:
    a = a['$arr']
    return a['dtype'], list(a['shape']), list(a['pat'])


def expected_rows(m: Model, mlf: MLF, frame: MObj) -> tuple[list[tuple[int, int]], list[bytes]]:
    """(layout [(code, n_elems)], rows) for a frame under the spec's write options: slot bytes of every written row."""
    import numpy as np
    w = m.spec.get('write') or {}
    chans = [m.objs[r['$ref']] for r in frame.attrs['channels']['value']]
    cols = []
    layout = []
    nrows = None
    for ch in chans:
        a = resolve_data(m, mlf, ch)
        if a is None:
            raise KeyError(f"no data for channel {ch.name}")
        dtype, shape, pat = elem_patterns(a)
        per_row = 1
        for s in shape[1:]:
            per_row *= s
        if nrows is None:
            nrows = shape[0]
        tdt = ch.cast or dtype
        size = DTYPE_SIZES[tdt]
        if ch.cast and ch.cast != dtype:
            src = np.array(pat, dtype=f'u{DTYPE_SIZES[dtype]}').view(np.dtype(dtype))
            with np.errstate(all='ignore'):
                vals = src.astype(np.dtype(tdt))
            ints = vals.view(f'u{size}').tolist()
        else:
            ints = pat
        cols.append((size, per_row, ints))
        layout.append((DTYPE_CODES[tdt], per_row))
    fr = w.get('from_idx', 0) or 0
    to = w.get('to_idx')
    to = nrows if to is None else to
    rows = []
    for r in range(fr, to):
        b = b''
        for size, per_row, ints in cols:
            for e in ints[r * per_row:(r + 1) * per_row]:
                b += int(e).to_bytes(size, 'big')
        rows.append(b)
    return layout, rows


def check_rows(m: Model, mlf: MLF, lf: R.LogicalFile) -> list[tuple[str, str]]:
    """C03 oracle: exactly one type-0 IFLR per written row per frame, numbered 1..N in order, slots bit-exact."""
    errs = []
    by_frame: dict[R.ObName, list[tuple[int, bytes]]] = {}
    for i, r, s in lf.records:
        if r.is_eflr or r.type != 0:
            continue
        try:
            ref, pos = R.decode_obname(r.body, 0)
            fno, pos = R.decode_uvari(r.body, pos)
        except R.FormatError as e:
            errs.append(('fdata_header', f"record {i}: {e}"))
            continue
        by_frame.setdefault(ref, []).append((fno, r.body[pos:]))
    frames = mlf.objs_of('frame')
    idents = {f.ident(): f for f in frames}
    for ref in by_frame:
        if ref not in idents:
            errs.append(('fdata_unknown_frame', f"frame data refers to {ref}, no such FRAME in this logical file"))
    for f in frames:
        try:
            layout, rows = expected_rows(m, mlf, f)
        except KeyError as e:
            errs.append(('model', f"model cannot compute rows of {f.name}: {e}"))
            continue
        got = by_frame.get(f.ident(), [])
        if len(got) != len(rows):
            errs.append(('row_count', f"frame {f.name}: {len(got)} frame-data records, {len(rows)} rows expected"))
            continue
        for k, ((fno, body), want) in enumerate(zip(got, rows)):
            if fno != k + 1:
                errs.append(('row_number', f"frame {f.name}: record {k} carries frame number {fno}, expected {k + 1}"))
                break
            if body != want:
                errs.append(('row_bytes', f"frame {f.name} row {k + 1}: slots {body.hex()} != expected {want.hex()}"))
                break
    return errs


def check_channel_descriptors(m: Model, mlf: MLF, lf: R.LogicalFile) -> list[tuple[str, str]]:
    """C08 oracle (file only + model for the written dtype): code, DIMENSION, ELEMENT-LIMIT, record length."""
    errs = []
    chan_objs = {ob.name: ob for ob in lf.objects('CHANNEL')}
    frame_objs = {ob.name: ob for ob in lf.objects('FRAME')}
    for f in mlf.objs_of('frame'):
        fo = frame_objs.get(f.ident())
        if fo is None:
            errs.append(('frame_missing', f"FRAME {f.ident()} not in file"))
            continue
        refs = R.attr_values(fo, 'CHANNELS') or []
        try:
            layout, rows = expected_rows(m, mlf, f)
        except KeyError as e:
            errs.append(('model', str(e)))
            continue
        chans = [m.objs[r['$ref']] for r in f.attrs['channels']['value']]
        if len(refs) != len(chans):
            errs.append(('frame_channels', f"FRAME {f.name} lists {len(refs)} channels, {len(chans)} given"))
            continue
        file_layout = []
        for ref, ch, (code, n) in zip(refs, chans, layout):
            co = chan_objs.get(ref)
            if co is None:
                errs.append(('channel_missing', f"FRAME {f.name} lists {ref}, not defined in CHANNEL sets"))
                break
            rc = R.attr_values(co, 'REPRESENTATION-CODE')
            dim = R.attr_values(co, 'DIMENSION')
            el = R.attr_values(co, 'ELEMENT-LIMIT')
            if rc != [code]:
                errs.append(('repr_code', f"CHANNEL {ch.name}: REPRESENTATION-CODE {rc} but data written as "
                                          f"{R.CODE_NAMES[code]} ({code})"))
            a = resolve_data(m, mlf, ch)
            shape = elem_patterns(a)[1]
            want_dim = shape[1:] or [1]
            if dim != want_dim:
                errs.append(('dimension', f"CHANNEL {ch.name}: DIMENSION {dim} != per-row shape {want_dim}"))
            if not el or len(el) < len(want_dim) or any(e < d for e, d in zip(el, want_dim)):
                errs.append(('element_limit', f"CHANNEL {ch.name}: ELEMENT-LIMIT {el} does not bound {want_dim}"))
            uel = ch.attrs.get('element_limit', {}).get('value')
            if uel is not None:
                uel = uel if isinstance(uel, list) else [uel]
                if el != uel:
                    errs.append(('element_limit_user', f"CHANNEL {ch.name}: user ELEMENT-LIMIT {uel} written as {el}"))
            if rc and dim and rc[0] in R.FIXED_SIZE:
                nn = 1
                for d in dim:
                    nn *= d
                file_layout.append((rc[0], nn))
        else:
            # record length from the file's own descriptors
            if len(file_layout) == len(chans):
                want_len = sum(R.FIXED_SIZE[c] * n for c, n in file_layout)
                for i, r, s in lf.records:
                    if r.is_eflr or r.type != 0:
                        continue
                    ref, pos = R.decode_obname(r.body, 0)
                    if ref != f.ident():
                        continue
                    fno, pos = R.decode_uvari(r.body, pos)
                    if len(r.body) - pos != want_len:
                        errs.append(('record_length', f"frame {f.name} record {fno}: {len(r.body) - pos} slot bytes, "
                                                      f"descriptors imply {want_len}"))
                        break
    return errs


def check_noformat(m: Model, mlf: MLF, lf: R.LogicalFile) -> list[tuple[str, str]]:
    """C16 oracle: the type-1 IFLRs, in order, are OBNAME of the intended NO-FORMAT object + exactly the payload."""
    errs = []
    got = []
    for i, r, s in lf.records:
        if not r.is_eflr and r.type == 1:
            try:
                ref, pos = R.decode_obname(r.body, 0)
            except R.FormatError as e:
                errs.append(('nf_header', f"record {i}: {e}"))
                continue
            got.append((ref, r.body[pos:]))
    want = [(m.objs[h].ident(), b) for h, b in mlf.nf]
    if len(got) != len(want):
        errs.append(('nf_count', f"{len(got)} no-format records in file, {len(want)} added"))
        return errs
    for k, ((gr, gb), (wr, wb)) in enumerate(zip(got, want)):
        if gr != wr:
            errs.append(('nf_ref', f"no-format record {k} refers to {gr}, expected {wr}"))
        elif gb != wb:
            errs.append(('nf_payload', f"no-format record {k} under {wr.name}: payload {gb.hex()} "
                                       f"({len(gb)} bytes) != supplied {wb.hex()} ({len(wb)} bytes)"))
    return errs


def check_header_and_order(m: Model, mlf: MLF, lf: R.LogicalFile) -> list[tuple[str, str]]:
    """C09 oracle on the reassembled record sequence of one logical file."""
    errs = []
    recs = lf.records
    i0, r0, s0 = recs[0]
    if s0 is None or s0.type != 'FILE-HEADER' or r0.type != 0:
        return [('header_first', "logical file does not start with a FILE-HEADER record of type FHLR")]
    if len(s0.objects) != 1:
        errs.append(('header_objects', f"FILE-HEADER holds {len(s0.objects)} objects"))
    ho = s0.objects[0]
    seq = R.attr_values(ho, 'SEQUENCE-NUMBER')
    hid = R.attr_values(ho, 'ID')
    if seq != [str(mlf.fh_seq).rjust(10)]:
        errs.append(('header_seq', f"SEQUENCE-NUMBER {seq!r} != {str(mlf.fh_seq).rjust(10)!r}"))
    if hid != [mlf.fh_id.ljust(65)]:
        errs.append(('header_id', f"ID {hid!r} != {mlf.fh_id.ljust(65)!r}"))
    for a in ho.attrs:
        if a.e_code != R.ASCII or a.e_count != 1:
            errs.append(('header_attr', f"FILE-HEADER attribute {a.e_label}: code {a.e_code} count {a.e_count}"))
    if ho.name.name != mlf.fh_identifier:
        errs.append(('header_name', f"FILE-HEADER object name {ho.name.name!r} != identifier {mlf.fh_identifier!r}"))
    # origin set(s) immediately after the header
    n_origin_sets = sum(1 for (k, _), lst in mlf.sets.items() if k == 'origin' and lst)
    j = 1
    seen_origin = 0
    while j < len(recs) and recs[j][2] is not None and recs[j][2].type == 'ORIGIN':
        seen_origin += 1
        j += 1
    if seen_origin == 0:
        errs.append(('origin_second', "FILE-HEADER is not immediately followed by an ORIGIN set"))
    else:
        first = recs[1][2].objects[0]
        fid = R.attr_values(first, 'FILE-ID')
        if fid != [mlf.fh_id]:
            errs.append(('origin_file_id', f"defining origin FILE-ID {fid!r} != header id {mlf.fh_id!r}"))
        fsn = R.attr_values(first, 'FILE-SET-NUMBER')
        if not fsn:
            errs.append(('origin_fsn', "defining origin without FILE-SET-NUMBER"))
        mo = mlf.objs_of('origin')
        if mo and first.name != mo[0].ident():
            errs.append(('origin_defining', f"first ORIGIN object {first.name} != defining origin {mo[0].ident()}"))
    for k in range(j, len(recs)):
        s = recs[k][2]
        if s is not None and s.type == 'ORIGIN':
            errs.append(('origin_late', f"ORIGIN set at record {k} after other sets"))
        if s is not None and s.type == 'FILE-HEADER':
            errs.append(('header_twice', f"second FILE-HEADER inside logical file at record {k}"))
    if seen_origin != n_origin_sets and n_origin_sets:
        errs.append(('origin_sets', f"{seen_origin} ORIGIN sets follow the header, specification has {n_origin_sets}"))
    # each (type,name) once, none empty (parse_eflr already rejects empty sets); EFLRs defining referenced objects
    seen = set()
    defined: set[tuple[str, R.ObName]] = set()
    for k, (i, r, s) in enumerate(recs):
        if s is not None:
            key = (s.type, s.name)
            if key in seen:
                errs.append(('set_twice', f"set {key} occurs twice"))
            seen.add(key)
            for ob in s.objects:
                defined.add((s.type, ob.name))
            if s.type == 'FRAME':
                for ob in s.objects:
                    for c in R.attr_values(ob, 'CHANNELS') or []:
                        if ('CHANNEL', c) not in defined:
                            pass  # checked at first IFLR below
        else:
            try:
                ref, _ = R.decode_obname(r.body, 0)
            except R.FormatError as e:
                errs.append(('iflr_header', str(e)))
                continue
            want_type = 'FRAME' if r.type == 0 else 'NO-FORMAT'
            if (want_type, ref) not in defined:
                errs.append(('iflr_before_definition', f"IFLR at record {k} refers to {want_type} {ref} "
                                                       f"not defined earlier in this logical file"))
            elif r.type == 0:
                fo = next(ob for s2 in lf.sets if s2.type == 'FRAME' for ob in s2.objects if ob.name == ref)
                for c in R.attr_values(fo, 'CHANNELS') or []:
                    if ('CHANNEL', c) not in defined:
                        errs.append(('channel_after_iflr', f"channel {c} of frame {ref} not defined before the data"))
    return errs


def check_identity_and_refs(m: Model, mlf: MLF, lf: R.LogicalFile) -> list[tuple[str, str]]:
    """C07 oracle from the file: identities unique; every OBNAME/OBJREF resolves to exactly one object of this logical
    file; every object's origin is the origin reference of an ORIGIN object of this logical file."""
    errs = []
    ids: dict[tuple[str, R.ObName], int] = {}
    for s in lf.sets:
        for ob in s.objects:
            ids[(s.type, ob.name)] = ids.get((s.type, ob.name), 0) + 1
    for key, n in ids.items():
        if n > 1 and key[0] != 'FILE-HEADER':
            in_sets = [s.name for s in lf.sets if s.type == key[0] and any(ob.name == key[1] for ob in s.objects)]
            where = 'across-named-sets' if len(in_sets) == n else 'within-set'
            errs.append((f'identity_duplicate:{where}', f"{n} objects share identity {key} (sets named {in_sets})"))
    origin_refs = {ob.name.origin for ob in lf.objects('ORIGIN')}
    # the FILE-HEADER object (whose origin the user cannot choose) belongs to the defining origin
    fh = [ob for s in lf.sets if s.type == 'FILE-HEADER' for ob in s.objects]
    mo = mlf.objs_of('origin')
    if fh and mo and fh[0].name.origin != mo[0].origin:
        errs.append(('header_origin', f"FILE-HEADER object has origin {fh[0].name.origin}, the defining origin's reference is "
                                      f"{mo[0].origin}"))
    by_name: dict[R.ObName, list[str]] = {}
    for (t, n) in ids:
        by_name.setdefault(n, []).append(t)
    for s in lf.sets:
        if s.type == 'FILE-HEADER':
            continue
        for ob in s.objects:
            if ob.name.origin not in origin_refs:
                errs.append(('origin_unknown', f"{s.type} object {ob.name}: origin {ob.name.origin} is not the origin "
                                               f"reference of any ORIGIN object of this logical file {sorted(origin_refs)}"))
            for a in ob.attrs:
                if a.absent or not a.e_values:
                    continue
                if a.e_code == R.OBNAME:
                    for v in a.e_values:
                        if len(by_name.get(v, [])) == 0:
                            errs.append(('ref_dangling', f"{s.type}:{ob.name.name}.{a.e_label} -> {v}: no such object "
                                                         f"in this logical file"))
                elif a.e_code == R.OBJREF:
                    for v in a.e_values:
                        k = ids.get((v.type, v.obname), 0)
                        if k == 0:
                            errs.append(('ref_dangling', f"{s.type}:{ob.name.name}.{a.e_label} -> {v}: no such object"))
                        elif k > 1:
                            in_sets = [s2.name for s2 in lf.sets if s2.type == v.type
                                       and any(o2.name == v.obname for o2 in s2.objects)]
                            where = 'across-named-sets' if len(in_sets) == k else 'within-set'
                            errs.append((f'ref_ambiguous:{where}', f"{s.type}:{ob.name.name}.{a.e_label} -> {v}: "
                                                                   f"resolves to {k} objects (sets named {in_sets})"))
    return errs
