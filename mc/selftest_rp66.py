"""Self-test of the strict reader: standard-quoted examples, a hand-assembled file, and a negative corpus.

Nothing here touches dliswriter: the good file is assembled byte by byte from the RP66 V1 text, and every
single-defect corruption of it must be rejected with the expected reason."""
from __future__ import annotations

import struct
from datetime import datetime

from mc import rp66
from mc.rp66 import FormatError


def uvari(n: int) -> bytes:
    if n < 128:
        return bytes([n])
    if n < 16384:
        return struct.pack('>H', n | 0x8000)
    return struct.pack('>I', n | 0xC0000000)


def ident(s: str) -> bytes:
    return bytes([len(s)]) + s.encode('ascii')


def obname(o: int, c: int, n: str) -> bytes:
    return uvari(o) + bytes([c]) + ident(n)


def sul(seq=1, maxlen=8192, setid='SET') -> bytes:
    return (str(seq).rjust(4) + 'V1.00' + 'RECORD' + str(maxlen).rjust(5) + setid.ljust(60)).encode('ascii')


def seg(body: bytes, eflr: bool, typ: int, pred=False, succ=False, pad=None) -> bytes:
    if pad is None:
        pad = len(body) % 2
    attr = (0x80 if eflr else 0) | (0x40 if pred else 0) | (0x20 if succ else 0) | (0x01 if pad else 0)
    if pad:
        body = body + bytes([pad]) * pad
    return struct.pack('>HBB', len(body) + 4, attr, typ) + body


def vr(*segs: bytes) -> bytes:
    b = b''.join(segs)
    return struct.pack('>H', len(b) + 4) + b'\xff\x01' + b


def good_eflr() -> bytes:
    b = b'\xf8' + ident('CHANNEL') + ident('S1')
    b += b'\x34' + ident('LONG-NAME') + bytes([rp66.ASCII])      # label + code
    b += b'\x30' + ident('DIMENSION')                              # label only (count 1, IDENT)
    b += b'\x3c' + ident('UNITS') + uvari(1) + bytes([rp66.IDENT])  # label, count, code
    b += b'\x70' + obname(1, 0, 'CH1')
    b += b'\x21' + uvari(3) + b'abc'                               # value only: ASCII via template code
    b += b'\x2d' + uvari(2) + bytes([rp66.UVARI]) + uvari(5) + uvari(300)   # count, code, value
    b += b'\x00'                                                   # absent
    b += b'\x70' + obname(1, 1, 'CH1')
    b += b'\x27' + bytes([rp66.FDOUBL]) + ident('m') + struct.pack('>d', -0.0)  # code units value
    return b


def good_file() -> bytes:
    e = good_eflr()
    pad = 1 if len(e) % 2 else 0
    f = sul() + vr(seg(e, True, 3, pad=pad))
    # a two-segment IFLR, split across two visible records
    body = obname(1, 0, 'FRAME') + uvari(1) + bytes(range(40))
    a, b = body[:24], body[24:]
    f += vr(seg(a, False, 0, succ=True)) + vr(seg(b, False, 0, pred=True, pad=(2 if len(b) % 2 == 0 else 1)))
    return f


def expect(code: str, fn, *a) -> None:
    try:
        fn(*a)
    except FormatError as e:
        if e.code != code:
            raise AssertionError(f"expected rejection {code}, got {e.code}: {e}")
        return
    raise AssertionError(f"expected rejection {code}, but input was accepted")


def run(quiet: bool = False) -> int:
    n = 0
    # --- standard examples ------------------------------------------------------------------------------------------
    assert rp66.decode_uvari(b'\x7f', 0) == (127, 1)
    assert rp66.decode_uvari(b'\x80\x80', 0) == (128, 2)
    assert rp66.decode_uvari(b'\xbf\xff', 0) == (16383, 2)
    assert rp66.decode_uvari(b'\xc0\x00\x40\x00', 0) == (16384, 4)
    assert rp66.decode_uvari(b'\xff\xff\xff\xff', 0) == (2 ** 30 - 1, 4)
    # 9:20:15.62 PM, April 19, 1987 (DST) — RP66 V1 Appendix B example
    v, raw, pos = rp66.decode_value(rp66.DTIME, bytes([0b01010111, 0b00010100, 0b00010011, 0b00010101,
                                                       0b00010100, 0b00001111, 0b00000010, 0b01101100]), 0)
    assert v == {'tz': 1, 'dt': datetime(1987, 4, 19, 21, 20, 15, 620000)} and pos == 8, v
    assert rp66.decode_value(rp66.FSINGL, bytes.fromhex('43190000'), 0)[0] == 153.0
    assert rp66.decode_value(rp66.FSINGL, bytes.fromhex('c3190000'), 0)[0] == -153.0
    assert rp66.decode_value(rp66.FDOUBL, bytes.fromhex('4063200000000000'), 0)[0] == 153.0
    assert rp66.decode_value(rp66.FSHORT, bytes.fromhex('4c88'), 0)[0] == 153.0
    assert rp66.decode_value(rp66.FSHORT, bytes.fromhex('b388'), 0)[0] == -153.0
    assert rp66.decode_value(rp66.ISINGL, bytes.fromhex('42990000'), 0)[0] == 153.0
    assert rp66.decode_value(rp66.ISINGL, bytes.fromhex('c2990000'), 0)[0] == -153.0
    assert rp66.decode_value(rp66.VSINGL, bytes.fromhex('19440000'), 0)[0] == 153.0
    assert rp66.decode_value(rp66.VSINGL, bytes.fromhex('19c40000'), 0)[0] == -153.0
    assert rp66.decode_value(rp66.SSHORT, b'\xa7', 0)[0] == -89
    assert rp66.decode_value(rp66.SNORM, b'\xff\x67', 0)[0] == -153
    assert rp66.decode_value(rp66.SLONG, b'\xff\xff\xff\x67', 0)[0] == -153
    assert rp66.decode_value(rp66.USHORT, b'\xd9', 0)[0] == 217
    assert rp66.decode_value(rp66.UNORM, b'\x80\x99', 0)[0] == 32921
    assert rp66.decode_value(rp66.ULONG, b'\x00\x00\x00\x99', 0)[0] == 153
    assert rp66.decode_value(rp66.IDENT, b'\x05TYPE1', 0)[0] == 'TYPE1'
    assert rp66.decode_value(rp66.UNITS, b'\x02ft', 0)[0] == 'ft'
    assert rp66.decode_value(rp66.ASCII, b'\x03\x41\x0a\x62', 0)[0] == 'A\nb'
    assert rp66.decode_value(rp66.OBNAME, b'\x01\x02\x03ABC', 0)[0] == rp66.ObName(1, 2, 'ABC')
    assert rp66.decode_value(rp66.OBJREF, b'\x04TOOL\x01\x02\x03ABC', 0)[0] == \
        rp66.ObjRef('TOOL', rp66.ObName(1, 2, 'ABC'))
    assert rp66.decode_value(rp66.ATTREF, b'\x04TOOL\x01\x02\x03ABC\x01L', 0)[0].label == 'L'
    assert rp66.decode_value(rp66.STATUS, b'\x01', 0)[0] == 1
    expect('status_range', rp66.decode_value, rp66.STATUS, b'\x02', 0)
    expect('unknown_code', rp66.decode_value, 28, b'\x02', 0)
    expect('unknown_code', rp66.decode_value, 0, b'\x02', 0)
    expect('truncated', rp66.decode_value, rp66.IDENT, b'\x05TYP', 0)
    expect('non_ascii', rp66.decode_value, rp66.IDENT, b'\x02\xc3\xa9', 0)
    expect('dtime_range', rp66.decode_value, rp66.DTIME, bytes([87, 0x2d, 1, 0, 0, 0, 0, 0]), 0)
    expect('dtime_range', rp66.decode_value, rp66.DTIME, bytes([87, 0x21, 1, 0, 0, 0, 0x03, 0xe8]), 0)
    expect('dtime_range', rp66.decode_value, rp66.DTIME, bytes([87, 0x31, 1, 0, 0, 0, 0, 0]), 0)
    n += 36

    # --- the good file ----------------------------------------------------------------------------------------------
    g = good_file()
    p = rp66.parse_physical(g)
    assert p.sul == {'seq': 1, 'version': 'V1.00', 'structure': 'RECORD', 'maxlen': 8192, 'setid': 'SET'.ljust(60)}
    assert len(p.vrs) == 3 and len(p.segments) == 3 and len(p.records) == 2
    assert p.records[0].is_eflr and p.records[0].type == 3 and p.records[0].body == good_eflr()
    assert not p.records[1].is_eflr
    assert p.records[1].body == obname(1, 0, 'FRAME') + uvari(1) + bytes(range(40))
    s = rp66.parse_eflr(p.records[0].body)
    assert (s.type, s.name) == ('CHANNEL', 'S1') and [t.label for t in s.template] == ['LONG-NAME', 'DIMENSION', 'UNITS']
    o0, o1 = s.objects
    assert o0.name == rp66.ObName(1, 0, 'CH1') and o1.name == rp66.ObName(1, 1, 'CH1')
    assert o0.attrs[0].e_values == ['abc'] and o0.attrs[0].e_code == rp66.ASCII
    assert o0.attrs[1].e_values == [5, 300] and o0.attrs[1].e_count == 2 and o0.attrs[2].absent
    assert len(o1.attrs) == 1 and o1.attrs[0].e_units == 'm' and o1.attrs[0].e_raw == [struct.pack('>d', -0.0)]
    ref, fno, slots = rp66.slice_fdata(p.records[1].body, [(rp66.USHORT, 8), (rp66.FDOUBL, 4)])
    assert ref.name == 'FRAME' and fno == 1 and slots[0][7] == b'\x07' and slots[1][3] == bytes(range(32, 40))
    expect('fdata_length', rp66.slice_fdata, p.records[1].body, [(rp66.USHORT, 8), (rp66.FDOUBL, 3)])
    expect('truncated', rp66.slice_fdata, p.records[1].body, [(rp66.USHORT, 9), (rp66.FDOUBL, 4)])
    n += 14

    # --- negative corpus: physical layer ----------------------------------------------------------------------------
    def mut(off: int, new: bytes) -> bytes:
        return g[:off] + new + g[off + len(new):]

    v0 = 80                       # first visible record
    s0 = 84                       # first segment header
    vlen0 = struct.unpack('>H', g[80:82])[0]
    phys_neg = [
        ('sul_short', g[:79]),
        ('sul_version', mut(4, b'V2.00')),
        ('sul_structure', mut(9, b'FIXREC')),
        ('sul_seq', mut(0, b'1   ')),
        ('sul_seq', mut(0, b'   0')),
        ('sul_seq', mut(0, b'  a1')),
        ('sul_maxlen', mut(15, b'8192 ')),
        ('sul_maxlen', mut(15, b'   18')),
        ('sul_maxlen', mut(15, b'16386')),
        ('sul_non_ascii', mut(30, b'\x00')),
        ('vr_long', mut(15, b'   20')),
        ('vr_marker', mut(v0 + 2, b'\xff\x02')),
        ('vr_marker', mut(v0 + 2, b'\x00\x01')),
        ('trailing_bytes', g + b'\x00'),
        ('trailing_bytes', g + b'\x00\x00\x00'),
        ('vr_truncated', g[:-2]),
        ('vr_odd', mut(v0, struct.pack('>H', vlen0 + 1))),
        ('seg_tiling', mut(v0, struct.pack('>H', vlen0 - 2)) if False else mut(s0, struct.pack('>H', vlen0 - 2))),
        ('seg_odd', mut(s0, struct.pack('>H', vlen0 - 5))),
        ('seg_short', sul() + vr(struct.pack('>HBB', 14, 0, 0) + bytes(10), struct.pack('>HBB', 16, 0, 0) + bytes(12))),
        ('vr_short', sul() + struct.pack('>H', 18) + b'\xff\x01' + struct.pack('>HBB', 14, 0, 0) + bytes(10)),
        ('seg_checksum', mut(s0 + 2, bytes([g[s0 + 2] | 0x04]))),
        ('seg_trailing_length', mut(s0 + 2, bytes([g[s0 + 2] | 0x02]))),
        ('seg_encrypted', mut(s0 + 2, bytes([g[s0 + 2] | 0x10]))),
        ('seg_encpacket', mut(s0 + 2, bytes([g[s0 + 2] | 0x08]))),
        ('seg_bracket', mut(s0 + 2, bytes([g[s0 + 2] | 0x40]))),
    ]
    # pad count 0 / larger than body
    e = good_eflr()
    e_even = e if len(e) % 2 == 0 else e + b'\x00'
    bad_pad0 = sul() + vr(struct.pack('>HBB', len(e_even) + 4, 0x81, 3) + e_even[:-1] + b'\x00')
    bad_pad_big = sul() + vr(struct.pack('>HBB', 16, 0x01, 0) + bytes(11) + b'\x0d')
    phys_neg += [('seg_padcount', bad_pad0), ('seg_padcount', bad_pad_big)]
    # bracket / consistency errors on the two-segment record
    body = obname(1, 0, 'FRAME') + uvari(1) + bytes(range(40))
    a, b = body[:24], body[24:]
    head = sul()
    phys_neg += [
        ('seg_bracket', head + vr(seg(a, False, 0, succ=True)) + vr(seg(b, False, 0, pred=False))),
        ('seg_bracket', head + vr(seg(a, False, 0, succ=True))),
        ('seg_type', head + vr(seg(a, False, 0, succ=True)) + vr(seg(b, False, 1, pred=True))),
        ('seg_structure', head + vr(seg(a, False, 0, succ=True)) + vr(seg(b, True, 0, pred=True))),
        ('seg_bracket', head + vr(seg(a, False, 0, pred=True))),
    ]
    for code, data in phys_neg:
        expect(code, rp66.parse_physical, data)
        n += 1
    # a file that stops at a record boundary but mid logical record is acceptable only for the crash-point check
    rp66.parse_physical(head + vr(seg(a, False, 0, succ=True)), require_complete_last_record=False)

    # --- negative corpus: component grammar -------------------------------------------------------------------------
    def E(*parts: bytes) -> bytes:
        return b''.join(parts)
    S = b'\xf0' + ident('T')
    T1 = b'\x34' + ident('A') + bytes([rp66.UVARI])
    O = b'\x70' + obname(1, 0, 'X')
    rp66.parse_eflr(E(S, T1, O))                                   # object with all attributes omitted: fine
    rp66.parse_eflr(E(S, T1, O, b'\x21\x05'))
    eflr_neg = [
        ('eflr_empty', b''),
        ('eflr_set', E(b'\x70' + ident('T'), T1, O)),
        ('eflr_set', E(b'\xe0', T1, O)),
        ('eflr_set', E(b'\xf1' + ident('T'), T1, O)),
        ('eflr_set', E(b'\xf0' + ident(''), T1, O)),
        ('eflr_template', E(S, O)),
        ('eflr_template', E(S, b'\x54' + ident('A') + bytes([rp66.UVARI]), O)),
        ('eflr_template_label', E(S, b'\x24' + bytes([rp66.UVARI]), O)),
        ('eflr_template_label', E(S, b'\x34' + ident('') + bytes([rp66.UVARI]), O)),
        ('eflr_template_dup', E(S, T1, T1, O)),
        ('eflr_no_objects', E(S, T1)),
        ('eflr_object', E(S, T1, b'\x60')),
        ('eflr_object', E(S, T1, b'\x71' + obname(1, 0, 'X'))),
        ('eflr_too_many_attrs', E(S, T1, O, b'\x21\x05', b'\x21\x05')),
        ('eflr_too_many_attrs', E(S, T1, O, b'\x00', b'\x00')),
        ('eflr_absatr', E(S, T1, O, b'\x01\x05')),
        ('eflr_label_in_object', E(S, T1, O, b'\x31' + ident('A') + b'\x05')),
        ('unknown_code', E(S, T1, O, b'\x25\x1c\x05')),
        ('unknown_code', E(S, b'\x34' + ident('A') + b'\x00', O)),
        ('truncated', E(S, T1, O, b'\x29\x02\x05')),                # count 2, one value present
        ('eflr_too_many_attrs', E(S, T1, O, b'\x29\x01\x05\x06')),  # count 1, two values present -> stray byte
        ('truncated', E(S, T1, O, b'\x25\x12')),                    # value announced and omitted (end of record)
        ('eflr_value_count', E(S, T1, O, b'\x29\x00')),             # count 0 with value bit
        ('eflr_component', E(S, T1, O, b'\x41')),
        ('truncated', E(S, T1, b'\x70' + uvari(1) + b'\x00' + b'\x09AB')),
    ]
    for code, data in eflr_neg:
        expect(code, rp66.parse_eflr, data)
        n += 1
    # value announced and omitted in the middle of a record desynchronises the parse: must not be accepted
    try:
        rp66.parse_eflr(E(S, T1, b'\x34' + ident('B') + bytes([rp66.UVARI]), O, b'\x25\x12', b'\x25\x12\x07'))
    except FormatError:
        n += 1
    else:
        raise AssertionError("announced-and-omitted value was accepted")
    if not quiet:
        print(f"rp66 self-test: {n} assertions passed")
    return n


if __name__ == '__main__':
    run()
