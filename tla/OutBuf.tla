------------------------------- MODULE OutBuf -------------------------------
(* Abstract model of dliswriter's output path: BufferedOutput (a buffer of B bytes) in front of ByteWriter (a file
   that is truncated by the first physical write and appended to afterwards).  Visible records of sizes 20, 22, 24
   are added; Final passes the remaining bytes on.  Used only as a cross-check of the hand-written explorer: every
   edge of the state graph TLC dumps is replayed against the real classes (mc/props/c10.py, tier thorough). *)
EXTENDS Naturals
CONSTANTS B,        \* buffer size (output_chunk_size)
          G,        \* bytes of prior content at the target path
          MaxOps,   \* bound on the number of operations
          Policy    \* "any": the buffer may or may not be flushed before any add (all that property C10 needs:
                    \*        neither the flush timing nor the buffer occupancy is prescribed by the property);
                    \* "exact": it is flushed exactly when the next record would not fit (what the code does today)
VARIABLES filled,   \* bytes currently held in the buffer
          disk,     \* bytes currently in the file
          opened,   \* TRUE once the file has been written by this writer
          n         \* operations so far
vars == <<filled, disk, opened, n>>

Init == filled = 0 /\ disk = G /\ opened = FALSE /\ n = 0

Flush == /\ disk' = IF opened THEN disk + filled ELSE filled
         /\ opened' = TRUE

Add(s) == /\ n < MaxOps
          /\ n' = n + 1
          /\ \E doflush \in BOOLEAN :
                /\ (Policy = "exact") => (doflush <=> (filled + s > B))
                /\ IF doflush
                      THEN Flush /\ filled' = s
                      ELSE filled' = filled + s /\ UNCHANGED <<disk, opened>>

Add20 == Add(20)
Add22 == Add(22)
Add24 == Add(24)
Final == /\ n < MaxOps
         /\ n' = n + 1
         /\ Flush /\ filled' = 0

Next == Add20 \/ Add22 \/ Add24 \/ Final
Spec == Init /\ [][Next]_vars

NeverOverfull == (Policy = "exact") => (filled <= B)
=============================================================================
