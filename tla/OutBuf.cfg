CONSTANTS B = 46
          G = 7
          MaxOps = 5
INIT Init
NEXT Next
INVARIANT NeverOverfull
