"""Plain pytest replay of recorded counterexamples, without the explorer:
    cd /verif && PYTHONPATH=/verif:/repo/src /venv/bin/python -m pytest -q replays/test_replays.py
Files under replays/known/ are the recorded known findings: they are expected to reproduce (xfail)."""
import glob
import json
import os
import sys

import pytest

VERIF = os.path.dirname(os.path.dirname(os.path.abspath(__file__)))
sys.path.insert(0, VERIF)
from mc import engine  # noqa: E402

FILES = sorted(glob.glob(os.path.join(VERIF, 'replays', '*', '*.json')))


@pytest.mark.parametrize('path', FILES, ids=[os.path.relpath(f, VERIF) for f in FILES])
def test_replay(path):
    engine.env_setup(silence_stderr=False)
    rec = json.load(open(path))
    if os.path.basename(os.path.dirname(path)) == 'known':
        pytest.xfail_known = True
    out = engine.replay_case(rec['property'], rec['case'])
    sigs = [s for s, _ in out.violations]
    if os.path.basename(os.path.dirname(path)) == 'known':
        if rec['signature'] in sigs:
            pytest.xfail(f"known finding still present: {rec['signature']}")
        return
    assert rec['signature'] not in sigs, f"violation {rec['signature']} reproduces: {out.violations[0][1][:300]}"
